#!/bin/sh
# usage: tools_mutant.sh <PROP> <dir with patch.diff demo.py> [extra check args]
# Verifies a seeded change in a scratch worktree of /repo (never in /repo) and
# runs the property's check against it through VERIF_REPO.
P=$1; D=$2; shift 2
W=/tmp/mutcheck-$$
git -C /repo worktree add -q --detach $W HEAD || exit 9
cd $W
echo "== demo on clean tree"; PYTHONPATH=. timeout 600 /venv/bin/python $D/demo.py >/tmp/mutdemo-clean.$$ 2>&1; echo "rc=$?"
if ! git apply $D/patch.diff; then echo "PATCH DOES NOT APPLY"; cd /; git -C /repo worktree remove --force $W; exit 8; fi
echo "== demo with patch"; PYTHONPATH=. timeout 600 /venv/bin/python $D/demo.py >/tmp/mutdemo-patched.$$ 2>&1; echo "rc=$?"; tail -3 /tmp/mutdemo-patched.$$
cd /verif
echo "== check $P against patched tree"
VERIF_REPO=$W VERIF_MAX_REPORTS=2 bin/check $P "$@" > /tmp/mutcheck-out.$$ 2>&1
RC=$?
grep -v "^    (" /tmp/mutcheck-out.$$ | grep -v "^KNOWN" | grep -v "^  detail" | cut -c1-300 | tail -7
echo "check rc=$RC"
rm -f /tmp/mutcheck-out.$$
git -C /repo worktree remove --force $W
rm -f /tmp/mutdemo-clean.$$ /tmp/mutdemo-patched.$$
