#!/venv/bin/python
"""Regenerates MANIFEST.json from the table below (keeps it valid at all times)."""
import json, os, subprocess
VERIF = os.path.dirname(os.path.abspath(__file__))
CLAIMED = {
 "C07": ("exploration", "4.4", "seeded syscall-level interleaving search of 2-3 GitFile writers/readers with injected errors, plus exhaustive k-th-syscall fault sweep over 35 dulwich routines that write through the lock protocol (index incl. locked_index, refs, packed-refs, config, loose objects, pack data and index versions 1-3 written by name, .keep, bitmaps, commit-graph by both writers, multi-pack-index, alternates, shallow, named files; six of them again under core.sharedRepository); lock ownership tracked from the system calls, invariants checked at every call",
         "real kernel O_EXCL/rename semantics; pre-emption only at intercepted syscalls; lock-file unlink itself never failed",
         "deterministic simulation: baton-passing actors over simfs, seeded schedules (uniform/burst/PCT/targeted) + fault injection, per-call invariants"),
 "C08": ("exploration", "4.5", "seeded syscall-level interleaving search of 2-3 actors (own DiskRefsContainer/Repo each) over the ref API and committers on one branch; recorded invoke/return histories checked for linearizability against a sequential ref-map model by brute force, final on-disk state read by a fresh process; commit scenarios check every acknowledged commit is an ancestor of the final tip",
         "schedules sampled not enumerated; multi-name reads judged per name; two recorded findings (known_findings.json) suppress only histories showing their specific interleaving mechanism",
         "deterministic simulation: baton-passing actors over simfs, seeded schedules (uniform/burst/PCT/targeted), linearizability checking of recorded histories against a reference model"),
 "C09": ("fault_enumeration", "4.6", "per seeded scenario (generated repository x one of 38 repository-changing operations incl. the server's receive-pack with and without atomic, an in-process push, stash push/pop/drop, reset --hard, notes, repack with bitmaps) every boundary before a mutating system call is enumerated as a crash point; the disk image of a process crash (and, with core.fsyncObjectFiles, of a power loss with un-fsynced data lost/torn/zeroed) is materialised and opened by a fresh Repo; refs must be old-or-new and name intact complete objects, everything reachable before must be intact, nothing visible may fail its hash, index/config old-or-new, a follow-up operation must work",
         "crash points exhaustive within a scenario, scenarios sampled; metadata operations assumed ordered and durable (ext4-ordered-like); directory fsync not modelled",
         "deterministic simulation: syscall journal over simfs, exhaustive crash-point enumeration per scenario with process-crash and power-loss disk models, recovery oracle against an object/ref model"),
 "C10": ("exploration", "4.7", "(a) seeded build/maintenance histories on a virtual clock (loose objects, packs, duplicates, refs moved/deleted, detached HEAD, tags, alternates, clock advances and skews; pack_loose/repack/gc/prune with grace 0/None/default, midx, commit-graph) checked after every maintenance step against an object/ref model incl. the grace-period bound; (b) maintenance actor against 1-2 long-lived reader actors interleaved at syscall granularity with optional injected write- and read-side errors (EIO/EMFILE/EACCES on open, read, listdir), every lookup/iteration (also iterate-and-look-up on one handle) of a reachable id must succeed; a read error inside a maintenance step may fail it but may not lose anything",
         "refs fixed while readers run; 'young' = first added less than grace ago on the virtual clock (sound lower bound); schedules sampled",
         "deterministic simulation: virtual clock + simfs histories against a reference model; baton-passing reader/maintainer actors under seeded schedules with fault injection"),
 "C19": ("exploration", "4.12", "the raw stream under Protocol/ReceivableProtocol/PktLineParser is owned by the simulator: seeded partitions of encoded streams into read/recv chunks (all 2^(n-1) partitions for streams up to 13 bytes), EOF/reset at every offset, all 65536 hex prefixes plus non-hex prefixes, mutated and random byte strings, oversize payloads through every encoder, side-band splitting on three channels, capability/ref lines, pkt-lines followed by a pack through PackStreamReader, decoding with eof() probes and pushed-back frames in between; every decoder is compared with an independent reference codec",
         "reliable ordered byte streams (only fragmentation/EOF/reset injected); reference codec in the check is the oracle; C git's parser not compared",
         "deterministic simulation of the byte-stream seam: simulator-chosen read/recv partitions and stream endings, differential against a reference codec"),
 "C05": ("exploration", "4.2", "sender and receiver repositories on simfs, dulwich client and dulwich upload-pack/receive-pack server as actors joined by simnet, smart HTTP (dulwich.web's WSGI application called in-process, one stateless request at a time, optionally with a second process moving refs or running maintenance on the served repository and with reset/truncated-response faults), or LocalGitClient: random commit DAGs, receiver = closure of a random sub-history plus private commits, fetch/clone/push with random wants, capability sets, depth (incl. a second fetch into the now shallow repository after the sender's history grew, deepening and unshallowing), hostile wants for unadvertised objects, delta packs; the scheduler owns delivery chunking/delay (hence can_read-driven negotiation), bounded buffers and resets; oracle = model closure byte-identical in the receiver, nothing outside the requested closure arrives, failure leaves refs/object set unchanged, retry without faults completes",
         "dulwich-to-dulwich only (C git and protocol v2 not inside the simulator); smart HTTP not simulated; schedules sampled",
         "deterministic simulation: two nodes + simulated byte-stream network under seeded schedules with fault injection (fragmentation, delay, back-pressure, reset), closure oracle against an object model"),
 "C06": ("exploration", "4.3", "one server repository served by ReceivePackHandler actors, 1-2 pushers (dulwich send_pack over simnet, LocalGitClient, and a scripted raw pkt-line pusher independent of dulwich.protocol that sends stale old values, zero ids and new values absent from its pack) racing on the same refs under seeded syscall- and delivery-level schedules with optional resets; reported statuses must be explained by one CAS chain per ref ending in the server's final value, every server ref must name a present object, atomic pushes must be all-or-nothing",
         "hooks not configured; smart HTTP not simulated; schedules sampled",
         "deterministic simulation: server + racing pusher actors over simnet/simfs under seeded schedules with fault injection, history oracle (per-ref CAS chain reconstruction)"),
 "C04": ("fault_enumeration", "4.1", "the simulator owns the reader callables and the stored bytes: four hand-built base packs are fed to six ingestion paths of the disk store (incl. a push through ReceivePackHandler) and three of the memory store under simulator-chosen read chunking, with every single-bit flip (also with a recomputed trailer), byte substitutions, every truncation point, appended tails and ~45 grammar-aware attacks (counts, trailer, OFS/REF redirections incl. self/2-/3-cycles, size lies, zlib garbage, decompression bombs, deep chains, unparsable objects); after each ingestion the store is compared with its pre-state (same instance and fresh process) or every new object is re-hashed; seven kinds of stored file are damaged the same way and read back by a fresh Repo",
         "mutation families are sharded per plan: one plan covers a sixth/eighth of the offsets, a quick run many plans; wall-clock net of 5 s only counts after a 10x solo re-run; four recorded findings cover stored files that carry no read-time integrity check",
         "deterministic simulation of the stream and storage seams: exhaustive single-fault enumeration (bit/byte/truncation) over small inputs plus structured attacks, with store post-state oracle"),
 "C16": ("exploration", "4.9", "seeded operation histories (6-30 steps) over ten names with directory/file collisions, symref chains and loops, attached/detached HEAD, loose/packed/both refs and peeled tags, covering the whole RefsContainer surface incl. import_refs, interleaved with pack_refs(all|tags), re-opening, alternating between two handles on one directory, stale *.lock fault steps and invalid names, under coarse/zero-step virtual clocks (stat-validated packed-refs cache); after every step the observable state through the same, a fresh and the other handle is compared with a map model; the dict and reftable backends run the restricted sequences; NamespacedRefsContainer over the files backend runs the full ones, and the enclosing repository must see exactly the view's refs under refs/namespaces/<ns>/ and its own bystander ref untouched",
         "documented RefsContainer contract is the model; handles used strictly in turn; check_ref_format vs git check-ref-format and C git's listing are not decided; three recorded reftable divergences are normalised so the rest of each sequence is still checked",
         "deterministic simulation: simfs + virtual clock, stepwise refinement of operation histories against a reference map model, two handles as alternating processes, fault steps (stale locks)"),
 "C17": ("exploration", "4.10", "every mutating system call of a checkout is resolved (real path of its parent at that instant) by a confinement monitor and must land inside the work tree; the control directory is snapshotted around each operation and may change only in the files checkout maintains; 1-3 adversarial trees (unsafe names, NTFS/HFS spellings, symlinks to absolute/parent/.git targets, names changing kind between trees, odd mode bits) (also names that relate: a flat entry 'link/payload' next to the symlink 'link', a symlink whose name extends a populated sibling directory's) are materialised in sequence by clone, checkout, switch, checkout --force, reset --hard, reset --mixed+--hard, restore, stash pop, apply_patch, am, build_index_from_tree and update_working_tree with protectNTFS/HFS on/off and optional injected errors mid-checkout; canaries outside the work tree and final mode bits are checked; a mutating call that would land outside the simulated disk is recorded and refused by the simulator, never executed",
         "work tree six levels deep so escapes stay inside the monitored sandbox; Windows/macOS semantics not simulated; stash apply and patch application not yet driven",
         "deterministic simulation: simfs syscall monitor as a per-call invariant, generated tree sequences as histories, fault injection mid-checkout"),
 "C18": ("exploration", "4.11", "the simulator owns time.time() and every file timestamp (granularity 1 ns .. 2 s): a generated tree (any bytes, empty and large files, executables, symlinks incl. dangling/self-referential, nested directories, non-UTF-8 and quote-needing names) is checked out by reset --hard / checkout / clone, staged again (tree id must round-trip, content/targets/exec bits compared), then 4-14 edits (same-size and other-size modification, chmod, delete, untracked, file<->symlink<->directory incl. directory->file and type changes that keep the bytes, stage, unstage, rm --cached, add everything, commit, reset --hard, switch between two trees whose names collide as file vs directory) each followed by porcelain.status (untracked_files all and normal) compared with a three-state content model, under normal, skewed and racy clock configurations",
         "content model is the oracle (git status not consulted); autocrlf/filters off; one recorded finding covers the racy-timestamp class",
         "deterministic simulation: virtual clock and file timestamps as the controlled nondeterminism, edit histories checked stepwise against a reference model"),
 "C14": ("exploration", "4.8", "reader nodes on one simulated disk: A opens the repository as is, B a copy with every accelerator stripped (commit-graph, multi-pack-index, bitmaps removed, packed-refs expanded), C is a long-lived instance opened before the history continued (optionally reading refs while the second process rewrites packed-refs, interleaved at system-call granularity), G the very handle that generated the accelerators; staleness is produced by a second process (new loose commits, new packs, pack_loose, repack, gc with immediate prune, refs deleted/moved, shallow, grafts) after the accelerators were written, mismatch by copying a commit-graph/midx/bitmap from another repository; every query (get_raw/contains of all known and some absent ids, iteration, parents, MissingObjectFinder and reachability sets, merge bases, ref map, keys, peeled value of every ref) must give A = B; refs must also equal the model of what was written, and C = B on objects that exist throughout and on refs",
         "accelerators written by dulwich only; B (same code, accelerators removed) is the reference and is itself checked against the object model; queries restricted to commits whose closure still exists",
         "deterministic simulation: multi-node differential reading of one simfs disk image, staleness and misdirected-write fault steps between accelerator write and query"),
}
NA = {
 "C01": "pure function of object field values / setter order: no schedule, clock, fault or I/O seam for a simulator to own (DESIGN.md section 5)",
 "C02": "pack/index round trip is a pure function of (object set, write options); no interleaving, clock or fault in the statement (section 5)",
 "C03": "delta codec is a pure function over byte strings (section 5)",
 "C11": "index encoding is a pure function of the entry set and version; its damage clause is exercised under C04 and atomic replacement under C07/C09 (section 5)",
 "C12": "tree build/flatten/diff/patch are pure functions over trees (section 5)",
 "C13": "merge-base/ancestry/walks are pure graph algorithms; the 'clock' is commit-timestamp data, not a time source (section 5)",
 "C15": "Rust-vs-Python equivalence is a two-program relation over inputs; the simulator blocks the extensions for determinism (section 5)",
 "C20": "configuration parse/format is a pure text codec; file replacement is covered under C07/C09 (section 5)",
}
def main():
    import importlib.util
    checks = []
    for pid, (level, ref, text, note, tech) in sorted(CLAIMED.items()):
        checks.append({
            "property_id": pid,
            "quick_cmd": f"bin/check {pid} --tier quick",
            "thorough_cmd": f"bin/check {pid} --tier thorough",
            "evidence_file": f"evidence/{pid}.json",
            "replay_cmd_template": f"bin/check {pid} --replay {{path}}",
            "engine": "dulwich-dst",
            "level_claimed": {"category": level, "text": text, "design_ref": f"DESIGN.md section {ref}"},
            "level_note": note,
            "technique": tech,
        })
    all_ids = [json.loads(l)["id"] for l in open(os.path.join(VERIF, "properties.jsonl"))]
    na = [{"property_id": p, "reason": NA[p]} for p in all_ids if p in NA]
    pending = [p for p in all_ids if p not in NA and p not in CLAIMED]
    for p in pending:
        na.append({"property_id": p, "reason": "simulation check designed (DESIGN.md section 4) but not yet built in this tree; not claimed until its check runs"})
    m = {
        "version": 1,
        "setup_cmd": "bin/check selftest-import",
        "hooks": {"guard": "DULWICH_VERIF_SIM", "enable": "no source hooks: bin/check sets DULWICH_VERIF_SIM=1 for its own launcher and monkeypatches os/io/time/tempfile/shutil seams before importing dulwich from /repo's working tree",
                  "baseline_off_cmd": "cd /repo && /venv/bin/python -m pytest -ra -q -p no:cacheprovider --timeout=900 --continue-on-collection-errors",
                  "source_commits": [], "add_only": True},
        "engines": [{"name": "dulwich-dst", "path": "sim/", "serves_properties": sorted(CLAIMED),
                     "kind_free_text": "deterministic simulation with fault injection: seeded scheduler over baton-passing actors, simfs (interposed file system over tmpfs with virtual stat/clock, fault plan, crash images), simnet (in-memory byte streams), plan/replay/ddmin"}],
        "checks": checks,
        "not_applicable": na,
        "notes": "Fix commits in /repo are listed in known_findings.json (fixed:). bin/check exits 0 held / 1 VIOLATION / 3 HARNESS-ERROR.",
    }
    with open(os.path.join(VERIF, "MANIFEST.json"), "w") as f:
        json.dump(m, f, indent=1); f.write("\n")
if __name__ == "__main__":
    main()
