#!/bin/sh
# usage: tools_thorough.sh "<props>"  -- thorough tier of each, one line + details; evidence is written to evidence-thorough/
PROPS=${1:-"C07 C08 C06 C09 C10 C19 C05 C04 C14 C16 C17 C18"}
mkdir -p evidence-thorough
for p in $PROPS; do
  start=$(date +%s)
  out=$(VERIF_SEED=${VERIF_SEED:-0} bin/check $p --tier thorough 2>&1)
  rc=$?
  echo "$p thorough rc=$rc $(( $(date +%s) - start ))s $(echo "$out" | tail -1)"
  cp evidence/$p.json evidence-thorough/$p.json 2>/dev/null
  if [ $rc -ne 0 ]; then
    echo "$out" | grep -v "^    (" | grep -v "^KNOWN" | cut -c1-700 | head -16
  fi
done
