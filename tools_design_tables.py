#!/venv/bin/python
"""Regenerate the generated tables of DESIGN.md (between BEGIN/END markers):
the catalogue of fix: commits (from known_findings.json + git log of /repo),
the seeded-change table (from seeded/*/meta.json) and the per-check numbers
(from evidence/*.json).  Narrative text is never touched."""
import json
import os
import re
import subprocess

V = os.path.dirname(os.path.abspath(__file__))


def fixcat():
    d = json.load(open(os.path.join(V, "known_findings.json")))
    by = {}
    for l in d["fixed"]:
        m = re.match(r"fixed: property=(C\d+) (\w+) (.*)", l)
        by.setdefault(m.group(1), []).append((m.group(2), m.group(3)))
    subj = {}
    out = subprocess.run(["git", "-C", "/repo", "log", "--format=%h %s",
                          "671b511..HEAD"], capture_output=True,
                         text=True).stdout
    for l in out.splitlines():
        h, s = l.split(" ", 1)
        subj[h] = s
    lines = [f"{len(subj)} commits, oldest base 671b511; `git -C /repo log "
             f"--oneline 671b511..HEAD` lists them.", ""]
    for p in sorted(by):
        lines.append(f"**{p}**")
        lines.append("")
        for h, what in by[p]:
            s = subj.get(h, "")
            s = s[5:] if s.startswith("fix: ") else s
            lines.append(f"* `{h}` {s}. *Failing behaviour:* {what}")
        lines.append("")
    return "\n".join(lines)


def seeded():
    rows = ["| change | file | needs | result | caught as (first signatures) |",
            "|---|---|---|---|---|"]
    base = os.path.join(V, "seeded")
    needs = json.load(open(os.path.join(base, "NEEDS.json")))
    for n in sorted(os.listdir(base)):
        mp = os.path.join(base, n, "meta.json")
        if not os.path.exists(mp):
            continue
        m = json.load(open(mp))
        try:
            am = json.load(open(os.path.join(base, n, "agent_meta.json")))
        except Exception:  # noqa: BLE001
            am = {}
        sigs = []
        for c in m["verified"]["check"]:
            for s in c["signatures"]:
                if s["sig"] not in sigs:
                    sigs.append(s["sig"])
        files = ", ".join(os.path.basename(f)
                          for f in am.get("files_touched", []))
        need = needs.get(n, "")
        rows.append(f"| {n} | {files} | {need} | "
                    f"{'caught' if m['verified']['caught'] else '**missed**'}"
                    f" | {'; '.join('`' + s[:90] + '`' for s in sigs[:2])} |")
    return "\n".join(rows)


def numbers():
    rows = ["| check | tier/seed | plans | evaluations | distinct non-trivial "
            "| runs/hour (16 procs) | simulated s | fault kinds fired "
            "(distinct kind@call) | faults fired | policies |",
            "|---|---|---|---|---|---|---|---|---|---|"]
    ed = os.path.join(V, "evidence")
    for f in sorted(os.listdir(ed)):
        e = json.load(open(os.path.join(ed, f)))
        cov = e.get("coverage", {})
        ff = cov.get("faults_fired", {}) or {}
        kinds = sorted({k.split("@")[0] for k in ff})
        rows.append("| %s | %s/%s | %s | %s | %s | %s | %s | %s (%d) | %d | %s |"
                    % (e.get("property_id", f[:-5]), e.get("tier"),
                       e.get("seed"), cov.get("plans_run", "?"),
                       cov.get("evaluations", "?"),
                       cov.get("distinct_nontrivial", "?"),
                       cov.get("runs_per_hour", "?"),
                       cov.get("simulated_seconds", "?"),
                       ", ".join(kinds) or "–", len(ff),
                       sum(ff.values()),
                       ", ".join(sorted(cov.get("policies", {}))) or "–"))
    return "\n".join(rows)


def main():
    p = os.path.join(V, "DESIGN.md")
    c = open(p).read()
    for name, fn in (("fixcat", fixcat), ("seeded", seeded),
                     ("numbers", numbers)):
        b, e = f"<!-- BEGIN:{name} -->", f"<!-- END:{name} -->"
        if b in c and e in c:
            c = c[:c.index(b) + len(b)] + "\n" + fn() + "\n" + c[c.index(e):]
    open(p, "w").write(c)


if __name__ == "__main__":
    main()
