#!/bin/sh
# usage: tools_soak.sh "<seeds>" "<props>" [tier]   -- prints one line per run, details for failures
SEEDS=${1:-"1 2 3 4 5"}
PROPS=${2:-"C04 C05 C06 C07 C08 C09 C10 C14 C16 C17 C18 C19"}
TIER=${3:-quick}
for p in $PROPS; do
  for s in $SEEDS; do
    out=$(VERIF_SEED=$s bin/check $p --tier $TIER 2>&1)
    rc=$?
    echo "$p seed=$s rc=$rc $(echo "$out" | tail -1)"
    if [ $rc -ne 0 ]; then
      echo "$out" | grep -v "^    (" | grep -v "^KNOWN" | cut -c1-700 | head -12
    fi
  done
done
