#!/venv/bin/python
"""Re-verify the seeded changes under /verif/seeded against the current checks.

For each seeded/<PROP>-m<i>/: make a scratch worktree of /repo (never /repo
itself), run demo.py on the clean tree (must exit 0), apply patch.diff, run
demo.py (must exit non-zero), run the property's quick check against the
worktree through VERIF_REPO, remove the worktree, and write meta.json.
usage: tools_seeded.py [PROP-mN ...] [--seeds 0,1]
"""
import json
import os
import re
import subprocess
import sys
import time

VERIF = os.path.dirname(os.path.abspath(__file__))


def sh(cmd, **kw):
    return subprocess.run(cmd, shell=True, capture_output=True, text=True,
                          errors="backslashreplace", **kw)


def main():
    args = [a for a in sys.argv[1:] if not a.startswith("--")]
    seeds = "0"
    for a in sys.argv[1:]:
        if a.startswith("--seeds="):
            seeds = a.split("=", 1)[1]
    names = args or sorted(os.listdir(os.path.join(VERIF, "seeded")))
    summary = []
    for name in names:
        d = os.path.join(VERIF, "seeded", name)
        if not os.path.isfile(os.path.join(d, "patch.diff")):
            continue
        prop = name.split("-")[0]
        w = f"/tmp/seeded-{os.getpid()}-{name}"
        sh(f"git -C /repo worktree add -q --detach {w} HEAD")
        try:
            env = dict(os.environ, PYTHONPATH=w)
            clean = sh(f"cd {w} && timeout 900 /venv/bin/python {d}/demo.py",
                       env=env)
            ap = sh(f"cd {w} && git apply {d}/patch.diff")
            if ap.returncode != 0:
                summary.append((name, "PATCH-DOES-NOT-APPLY", ""))
                continue
            patched = sh(f"cd {w} && timeout 900 /venv/bin/python {d}/demo.py",
                         env=env)
            caught = []
            rcs = []
            # seeded/<name>/check_with: the check of another property that
            # decides the clause this change breaks (e.g. the push clause of
            # C08 is decided by C06's harness)
            cw = os.path.join(d, "check_with")
            props = [prop] + (open(cw).read().split() if os.path.exists(cw)
                              else [])
            for prop_ in props[1:]:
                e2 = dict(os.environ, VERIF_REPO=w, VERIF_SEED="0",
                          VERIF_MAX_REPORTS="2", VERIF_NO_EVIDENCE="1")
                ck = sh(f"cd {VERIF} && bin/check {prop_}", env=e2)
                sigs = re.findall(r"signature: (\S+)\s+\((\d+) of (\d+) runs",
                                  ck.stdout)
                caught.append({"VERIF_SEED": 0, "check": prop_,
                               "exit": ck.returncode,
                               "signatures": [
                                   {"sig": a, "runs": int(b), "of": int(c)}
                                   for a, b, c in sigs]})
                if ck.returncode == 1:
                    rcs.append(1)
            # (decided by the neighbouring check: the own check is skipped
            # for THIS change only)
            own_seeds = "" if rcs else seeds
            for s in [x for x in own_seeds.split(",") if x]:
                e2 = dict(os.environ, VERIF_REPO=w, VERIF_SEED=s,
                          VERIF_MAX_REPORTS="2", VERIF_NO_EVIDENCE="1")
                t0 = time.time()
                ck = sh(f"cd {VERIF} && bin/check {prop}", env=e2)
                rcs.append(ck.returncode)
                sigs = re.findall(r"signature: (\S+)\s+\((\d+) of (\d+) runs",
                                  ck.stdout)
                more = re.findall(r"further signature not minimised: (\S+) "
                                  r"x(\d+)", ck.stdout)
                caught.append({"VERIF_SEED": int(s), "exit": ck.returncode,
                               "wall_s": round(time.time() - t0, 1),
                               "signatures": [
                                   {"sig": a, "runs": int(b), "of": int(c)}
                                   for a, b, c in sigs] + [
                                   {"sig": a, "runs": int(b)}
                                   for a, b in more]})
            am = {}
            try:
                am = json.load(open(os.path.join(d, "agent_meta.json")))
            except Exception:  # noqa: BLE001
                pass
            meta = {
                "property": prop,
                "breaks": am.get("summary") or am.get("description") or "",
                "needs_to_manifest": am.get("what_it_needs_to_manifest") or
                am.get("needs") or "",
                "origin": "fresh sub-agent given only the property text and "
                          "a scratch worktree of /repo",
                "verified": {
                    "repo_head": sh("git -C /repo log --format=%h -1")
                    .stdout.strip(),
                    "demo_clean_exit": clean.returncode,
                    "demo_patched_exit": patched.returncode,
                    "check_cmd": f"VERIF_REPO=<scratch worktree with "
                                 f"patch.diff applied> bin/check {prop}",
                    "check": caught,
                    "caught": bool(rcs) and all(r == 1 for r in rcs),
                },
            }
            json.dump(meta, open(os.path.join(d, "meta.json"), "w"), indent=1)
            summary.append((name, "CAUGHT" if meta["verified"]["caught"] else
                            f"MISSED rc={rcs}",
                            f"demo clean={clean.returncode} "
                            f"patched={patched.returncode} " + ", ".join(
                                s["sig"] for c in caught
                                for s in c["signatures"][:2])))
        finally:
            sh(f"git -C /repo worktree remove --force {w}")
            sh("git -C /repo worktree prune")
    for row in summary:
        print("%-8s %-22s %s" % row)


if __name__ == "__main__":
    main()
