"""Crash-state builder: at every boundary before a mutating system call (and
after the last one) materialise the disk image a crash at that instant would
leave.

process-crash model: the image is the real kernel state (bytes still in a
  user-space buffer never reached the sandbox, so they are lost).
power-loss model: metadata operations are kept in order; for every file whose
  data changed since its last fsync the content is replaced by the content at
  that fsync (empty for a new file), a prefix, zeros of the same length, or
  the full content.
"""

from __future__ import annotations

import hashlib
import os
import stat as _stat

from .simfs import R


class CrashRecorder:
    def __init__(self, fs, src, img_base, power_loss=False, rng=None,
                 max_images=400):
        self.fs = fs
        self.src = src
        self.img_base = img_base
        self.power_loss = power_loss
        self.rng = rng
        self.max_images = max_images
        self.images = []  # (label, path, model)
        self.seen = set()
        self.boundaries = 0
        R.makedirs(img_base, exist_ok=True)

    def hook(self, fs, call, rel, n):
        self.take((n, call, rel))

    def _copy(self, src, dst, h, dirty):
        R.mkdir(dst)
        for n in sorted(R.listdir(src)):
            s = os.path.join(src, n)
            d = os.path.join(dst, n)
            st = R.lstat(s)
            if _stat.S_ISDIR(st.st_mode):
                h.update(b"D" + n.encode("utf-8", "surrogateescape"))
                self._copy(s, d, h, dirty)
                h.update(b"/")
            elif _stat.S_ISLNK(st.st_mode):
                t = R.readlink(s)
                h.update(b"L" + n.encode("utf-8", "surrogateescape") +
                         os.fsencode(t))
                R.symlink(t, d)
            elif _stat.S_ISREG(st.st_mode):
                with R.open(s, "rb") as f:
                    data = f.read()
                h.update(b"F" + n.encode("utf-8", "surrogateescape") +
                         b"%d:" % len(data) + data)
                fd = R.os_open(d, os.O_WRONLY | os.O_CREAT | os.O_EXCL,
                               _stat.S_IMODE(st.st_mode) | 0o200)
                try:
                    R.write(fd, data)
                finally:
                    R.close(fd)
                if dirty is not None and self.fs.durable is not None:
                    dur = self.fs.durable.get((st.st_dev, st.st_ino), b"")
                    if dur != data:
                        dirty.append((d, data, dur))

    def take(self, label):
        self.boundaries += 1
        if len(self.images) >= self.max_images:
            return
        d = os.path.join(self.img_base, f"i{len(self.images)}")
        h = hashlib.blake2b(digest_size=12)
        dirty = [] if self.power_loss else None
        self._copy(self.src, d, h, dirty)
        key = h.digest()
        if key in self.seen:
            from .util import real_rmtree
            real_rmtree(d)
        else:
            self.seen.add(key)
            self.images.append((label, d, "process-crash", key.hex()))
        if self.power_loss and dirty:
            for variant in ("revert", "random"):
                d2 = os.path.join(self.img_base, f"i{len(self.images)}")
                h2 = hashlib.blake2b(digest_size=12)
                dirty2 = []
                self._copy(self.src, d2, h2, dirty2)
                desc = []
                for (p, data, dur) in dirty2:
                    if variant == "revert":
                        new = dur
                        how = "lost"
                    else:
                        how = self.rng.choice(["lost", "prefix", "zeros",
                                               "full", "prefix"])
                        if how == "lost":
                            new = dur
                        elif how == "prefix":
                            new = data[:self.rng.randrange(0, len(data) + 1)]
                        elif how == "zeros":
                            new = b"\0" * len(data)
                        else:
                            new = data
                    desc.append((os.path.relpath(p, d2), how))
                    fd = R.os_open(p, os.O_WRONLY | os.O_TRUNC)
                    try:
                        R.write(fd, new)
                    finally:
                        R.close(fd)
                    h2.update(p.encode() + new)
                key2 = h2.digest()
                if key2 in self.seen:
                    from .util import real_rmtree
                    real_rmtree(d2)
                    continue
                self.seen.add(key2)
                self.images.append((label + (tuple(desc),), d2,
                                    "power-loss", key2.hex()))
