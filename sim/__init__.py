"""Deterministic simulation kernel for dulwich (see /verif/DESIGN.md)."""
