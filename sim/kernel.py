"""Scheduler, actors, virtual clock, PRNG streams.

One run = one Sim.  Actors are simulated OS processes: real threads that pass a
baton, so exactly one runs at a time and the *only* real choice -- who runs
next -- is made by the scheduler from a seeded PRNG or from a recorded trace.
Pre-emption points are the intercepted system calls (simfs, simnet, clock).
"""

from __future__ import annotations

import hashlib
import os
import random
import threading


class SimAbort(BaseException):
    """Raised inside actors to unwind them when a run is aborted."""


class SimDeadlock(Exception):
    pass


def derive_seed(seed, name) -> int:
    h = hashlib.sha256(f"{seed}:{name}".encode()).digest()
    return int.from_bytes(h[:8], "big")


class Clock:
    """Virtual clock in integer nanoseconds."""

    # 2026-01-01T00:00:00Z
    EPOCH = 1767225600 * 10**9

    def __init__(self, cfg=None, rng=None):
        cfg = cfg or {}
        self.now_ns = self.EPOCH + int(cfg.get("start_offset_ns", 0))
        # step applied at every intercepted syscall
        self.step_lo = int(cfg.get("step_lo_ns", 1000))
        self.step_hi = int(cfg.get("step_hi_ns", 1000))
        # timestamp granularity for file metadata
        self.gran = int(cfg.get("gran_ns", 1))
        self.rng = rng
        self.advanced = 0

    def tick(self):
        if self.step_hi <= 0:
            return
        if self.step_lo == self.step_hi or self.rng is None:
            d = self.step_hi
        else:
            d = self.rng.randint(self.step_lo, self.step_hi)
        self.now_ns += d
        self.advanced += d

    def advance(self, ns):
        self.now_ns += int(ns)
        if ns > 0:
            self.advanced += int(ns)

    def stamp(self):
        """Timestamp a file operation would get now (granularity applied)."""
        g = self.gran
        return self.now_ns - (self.now_ns % g) if g > 1 else self.now_ns

    def time(self):
        return self.now_ns / 1e9


class Actor:
    def __init__(self, sim, name, fn, idx):
        self.sim = sim
        self.name = name
        self.fn = fn
        self.idx = idx
        self.sem = threading.Semaphore(0)
        self.state = "ready"  # ready | blocked | done
        self.pred = None
        self.result = None
        self.exc = None
        self.thread = None
        self.mcount = 0  # mutating calls issued so far (fault addressing)
        self.ycount = 0
        self.pid = 1000 + idx
        self.virtual = False
        self.stall = 0  # not schedulable for this many decisions
        self.local = {}

    def runnable(self):
        if self.state == "ready":
            return True
        if self.state == "blocked":
            return bool(self.pred())
        return False

    def __repr__(self):
        return f"<Actor {self.name} {self.state}>"


class VirtualActor:
    """An actor without a thread: a step function run inline by the scheduler
    (the network)."""

    virtual = True

    def __init__(self, name, idx, runnable_fn, step_fn):
        self.name = name
        self.idx = idx
        self._runnable = runnable_fn
        self._step = step_fn
        self.state = "ready"
        self.stall = 0

    def runnable(self):
        return self.state != "done" and self._runnable()

    def step(self):
        self._step()


HOT_CALLS = frozenset(
    ["open_excl", "rename", "replace", "unlink", "listdir", "scandir", "fsync",
     "open_r", "read", "net_deliver"]
)


class Sim:
    """One simulated execution."""

    def __init__(self, seed=0, sched=None, clock=None, faults=None,
                 step_cap=20000, log_events=True):
        self.seed = seed
        self.sched_cfg = dict(sched or {"policy": "uniform"})
        self._rngs = {}
        self.clock = Clock(clock, self.rng("clock"))
        self.actors = []
        self.current = None
        self.main_sem = threading.Semaphore(0)
        self.aborting = False
        self.abort_reason = None
        self.steps = 0
        self.step_cap = step_cap
        self.events = [] if log_events else None
        self._digest = hashlib.blake2b(digest_size=16)
        self.nevents = 0
        # fault table: {(actor_name, nth_mutating_call): kind}
        self.faults = {}
        # faults on non-mutating calls (open for reading, read, stat,
        # listdir): {(actor, n-th such call): kind}; a plan asks for one with
        # "on": "read"
        self.rfaults = {}
        for f in faults or []:
            if f.get("on") == "read":
                self.rfaults[(f["actor"], int(f["nth"]))] = f["kind"]
            else:
                self.faults[(f["actor"], int(f["nth"]))] = f["kind"]
        self.fired = []  # faults that actually fired
        self.fault_filter = None  # fn(call, rel) -> may this call be failed?
        self.violations = []  # (signature, detail)
        self.stats = {}
        self.listeners = []  # fn(sim, actor, call, path, info) after mutating calls
        self.pre_listeners = []  # before mutating calls
        self.last_call = None
        # schedule
        self.trace_out = []  # run-length encoded [(actor_idx, n)]
        self._trace_in = None
        if "trace" in self.sched_cfg:
            self._trace_in = [list(x) for x in self.sched_cfg["trace"]]
            self._tpos = 0
        self._sched_rng = self.rng("sched")
        self._pct_prio = None
        self._pct_points = None
        self._burst_left = 0
        self.op_seq = 0  # global event sequence for history stamps
        self.inline = False
        # code under test that draws from the global PRNG (reftable names)
        random.seed(derive_seed(seed, "global-random"))

    # ------------------------------------------------------------------ rng
    def rng(self, name) -> random.Random:
        r = self._rngs.get(name)
        if r is None:
            r = self._rngs[name] = random.Random(derive_seed(self.seed, name))
        return r

    def stat(self, key, n=1):
        self.stats[key] = self.stats.get(key, 0) + n

    # --------------------------------------------------------------- actors
    def actor(self, name, fn):
        a = Actor(self, name, fn, len(self.actors))
        self.actors.append(a)
        return a

    def virtual(self, name, runnable_fn, step_fn):
        a = VirtualActor(name, len(self.actors), runnable_fn, step_fn)
        self.actors.append(a)
        return a

    def violation(self, signature, detail=None, fatal=False):
        self.violations.append((signature, detail))
        if fatal and not self.aborting:
            self._begin_abort("violation")

    # ------------------------------------------------------------------ log
    def log(self, actor_name, call, path, extra=None):
        self.nevents += 1
        rec = (self.nevents, actor_name, call, path, extra)
        self._digest.update(repr(rec).encode())
        if self.events is not None:
            self.events.append(rec)

    def digest(self):
        return self._digest.hexdigest()

    def stamp(self):
        self.op_seq += 1
        return self.op_seq

    # ------------------------------------------------------------ scheduling
    def _candidates(self):
        out = []
        for a in self.actors:
            if a.stall > 0:
                continue
            if a.runnable():
                out.append(a)
        if not out:
            # stalled actors become eligible when nothing else can run
            for a in self.actors:
                if a.stall > 0 and a.runnable():
                    a.stall = 0
                    out.append(a)
        return out

    def _record(self, a):
        t = self.trace_out
        if t and t[-1][0] == a.idx:
            t[-1][1] += 1
        else:
            t.append([a.idx, 1])

    def _pick(self, me):
        cands = self._candidates()
        if not cands:
            return None
        for a in self.actors:
            if a.stall > 0:
                a.stall -= 1
        if len(cands) == 1:
            ch = cands[0]
            # still consume the trace so replays stay aligned
            if self._trace_in is not None:
                self._trace_consume(ch)
            self._record(ch)
            return ch
        if self._trace_in is not None:
            ch = self._pick_trace(cands, me)
        else:
            ch = self._pick_policy(cands, me)
        self._record(ch)
        return ch

    def _trace_consume(self, ch):
        t = self._trace_in
        while self._tpos < len(t) and t[self._tpos][1] <= 0:
            self._tpos += 1
        if self._tpos < len(t) and t[self._tpos][0] == ch.idx:
            t[self._tpos][1] -= 1

    def _pick_trace(self, cands, me):
        t = self._trace_in
        while self._tpos < len(t):
            idx, n = t[self._tpos]
            if n <= 0:
                self._tpos += 1
                continue
            for a in cands:
                if a.idx == idx:
                    t[self._tpos][1] -= 1
                    return a
            # recorded actor cannot run here (plan was edited): skip segment
            self._tpos += 1
        # trace exhausted: run to completion without pre-emption
        if me is not None and me in cands:
            return me
        return cands[0]

    def _pick_policy(self, cands, me):
        pol = self.sched_cfg.get("policy", "uniform")
        rng = self._sched_rng
        if pol == "uniform":
            return cands[rng.randrange(len(cands))]
        if pol == "burst":
            p_switch = self.sched_cfg.get("p_switch", 0.1)
            if me is not None and me in cands and rng.random() >= p_switch:
                return me
            return cands[rng.randrange(len(cands))]
        if pol == "targeted":
            hot = self.last_call in HOT_CALLS
            p_switch = self.sched_cfg.get("p_hot", 0.5) if hot else \
                self.sched_cfg.get("p_cold", 0.03)
            if me is not None and me in cands and rng.random() >= p_switch:
                return me
            others = [a for a in cands if a is not me] or cands
            return others[rng.randrange(len(others))]
        if pol == "pct":
            if self._pct_prio is None:
                n = len(self.actors)
                pr = list(range(n))
                rng.shuffle(pr)
                self._pct_prio = {a.idx: pr[i] + 10 for i, a in
                                  enumerate(self.actors)}
                d = int(self.sched_cfg.get("depth", 2))
                est = int(self.sched_cfg.get("est_steps", 200))
                self._pct_points = sorted(rng.randrange(1, max(2, est))
                                          for _ in range(max(0, d - 1)))
                self._pct_low = 9
            while self._pct_points and self.steps >= self._pct_points[0]:
                self._pct_points.pop(0)
                if me is not None:
                    self._pct_prio[me.idx] = self._pct_low
                    self._pct_low -= 1
            return max(cands, key=lambda a: self._pct_prio.get(a.idx, 0))
        if pol == "sequential":
            if me is not None and me in cands:
                return me
            return cands[0]
        raise ValueError(pol)

    def _begin_abort(self, reason):
        self.aborting = True
        if self.abort_reason is None:
            self.abort_reason = reason

    def _handoff(self, me):
        """Decide who runs next; called by the thread holding the baton."""
        while True:
            if self.aborting and self.inline:
                # single-actor execution on the caller's thread: unwind now
                raise SimAbort()
            if self.aborting:
                self.current = None
                self.main_sem.release()
                nxt = None
                break
            self.steps += 1
            if self.steps > self.step_cap:
                self._begin_abort("step-cap")
                continue
            nxt = self._pick(me)
            if nxt is None:
                if all(a.state == "done" for a in self.actors if not a.virtual):
                    self.current = None
                    self.main_sem.release()
                    break
                self._begin_abort("deadlock")
                continue
            if nxt.virtual:
                self.last_call = "net_deliver"
                nxt.step()
                continue
            break
        if nxt is me and nxt is not None:
            return
        if nxt is not None:
            self.current = nxt
            nxt.sem.release()
        if me is not None and me.state != "done":
            me.sem.acquire()
            if self.aborting:
                raise SimAbort()

    def yield_point(self, call=None):
        """Pre-emption point; called from the running actor's thread."""
        me = self.current
        if me is None or self.aborting:
            return
        if threading.current_thread() is not me.thread:
            return
        me.ycount += 1
        self.last_call = call
        self.clock.tick()
        self._handoff(me)

    def block_until(self, pred, call="block"):
        me = self.current
        if me is None:
            raise RuntimeError("block_until outside an actor")
        if self.aborting:
            raise SimAbort()
        me.state = "blocked"
        me.pred = pred
        self.last_call = call
        try:
            self._handoff(me)
        finally:
            me.state = "ready" if me.state == "blocked" else me.state
            me.pred = None

    # -------------------------------------------------------------- running
    def _body(self, a):
        a.sem.acquire()
        if not self.aborting:
            try:
                a.result = a.fn(a)
            except SimAbort:
                pass
            except BaseException as e:  # noqa: BLE001 - actor outcome
                a.exc = e
                if os.environ.get("VERIF_DEBUG_TB"):
                    import traceback
                    traceback.print_exc()
        a.state = "done"
        if self.aborting:
            self.current = None
            self.main_sem.release()
        else:
            try:
                self._handoff(a)
            except SimAbort:
                pass

    def run(self):
        """Run all actors to completion under the schedule."""
        real = [a for a in self.actors if not a.virtual]
        for a in real:
            a.thread = threading.Thread(target=self._body, args=(a,),
                                        name=f"sim-{a.name}", daemon=True)
            a.thread.start()
        # first decision made by main
        self._handoff(None)
        self.main_sem.acquire()
        if self.aborting:
            # unwind every parked actor, one at a time
            for a in real:
                while a.state != "done":
                    self.current = a
                    a.sem.release()
                    self.main_sem.acquire()
        self.current = None
        for a in real:
            a.thread.join(30)
            if a.thread.is_alive():
                raise RuntimeError(f"actor {a.name} did not finish")
        return self

    def run_inline(self, name, fn):
        """Single-actor execution on the calling thread (no threads needed):
        shims log, inject faults and fire listeners, but never switch."""
        a = Actor(self, name, fn, len(self.actors))
        a.thread = threading.current_thread()
        self.actors.append(a)
        self.current = a
        self.inline = True
        try:
            a.result = fn(a)
        except SimAbort:
            pass
        except BaseException as e:  # noqa: BLE001
            a.exc = e
        finally:
            a.state = "done"
            self.current = None
            self.inline = False
        return a
