"""Adapters that put dulwich's smart client and server on simnet, through the
seams they already have (TraditionalGitClient._connect, ReceivableProtocol)."""

from __future__ import annotations

import io


class _Raw(io.RawIOBase):
    def __init__(self, ep):
        super().__init__()
        self.ep = ep

    def readable(self):
        return True

    def readinto(self, b):
        data = self.ep.recv(len(b))
        b[:len(data)] = data
        return len(data)


def make_client(sim, endpoint_factory, **kw):
    """A TraditionalGitClient whose connections are simnet endpoints.

    endpoint_factory(cmd, path) -> Endpoint (client side of a Conn whose
    server actor is already waiting)."""
    from dulwich.client import TraditionalGitClient
    from dulwich.protocol import Protocol

    class SimGitClient(TraditionalGitClient):
        def _connect(self, cmd, path, protocol_version=None):
            if not isinstance(path, bytes):
                path = path.encode("utf-8")
            ep = endpoint_factory(cmd, path)
            rfile = io.BufferedReader(_Raw(ep), buffer_size=kw.get(
                "rbuf", 8192))

            def close():
                ep.close()

            def shutdown_write():
                ep.close_write()

            proto = Protocol(rfile.read, ep.sendall, close,
                             report_activity=self._report_activity,
                             shutdown_write=shutdown_write)
            # the in-repo server speaks v0/v1 only
            self.protocol_version = 0
            proto.send_cmd(b"git-" + cmd, path, b"host=sim")
            return proto, ep.can_read, None

        def get_url(self, path):
            return "sim://server" + (path if isinstance(path, str)
                                     else path.decode())

    ckw = {k: v for k, v in kw.items()
           if k in ("thin_packs", "include_tags", "quiet")}
    return SimGitClient(**ckw)


def restricted_handlers(drop_caps=(), upload_extra=None):
    """Upload/ReceivePackHandler subclasses with some capabilities removed."""
    from dulwich.server import ReceivePackHandler, UploadPackHandler
    drop = set(drop_caps)

    class UP(UploadPackHandler):
        def capabilities(self):
            return [c for c in super().capabilities() if c not in drop]

    class RP(ReceivePackHandler):
        def capabilities(self):
            return [c for c in super().capabilities() if c not in drop]

    return {b"git-upload-pack": UP, b"git-receive-pack": RP}


def serve_one(ep, backend, handlers, result):
    """Server actor body for one connection."""
    from dulwich.errors import GitProtocolError, HangupException
    from dulwich.protocol import ReceivableProtocol
    proto = ReceivableProtocol(ep.recv, ep.sendall)
    try:
        command, args = proto.read_cmd()
        cls = handlers[command]
        h = cls(backend, args, proto)
        result["handler"] = h
        h.handle()
        result["ok"] = True
    except (HangupException, GitProtocolError, OSError) as e:
        result["error"] = repr(e)
    finally:
        ep.close()
