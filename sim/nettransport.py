"""Adapters that put dulwich's smart client and server on simnet, through the
seams they already have (TraditionalGitClient._connect, ReceivableProtocol)."""

from __future__ import annotations

import io


class _Raw(io.RawIOBase):
    def __init__(self, ep):
        super().__init__()
        self.ep = ep

    def readable(self):
        return True

    def readinto(self, b):
        data = self.ep.recv(len(b))
        b[:len(data)] = data
        return len(data)


def make_client(sim, endpoint_factory, **kw):
    """A TraditionalGitClient whose connections are simnet endpoints.

    endpoint_factory(cmd, path) -> Endpoint (client side of a Conn whose
    server actor is already waiting)."""
    from dulwich.client import TraditionalGitClient
    from dulwich.protocol import Protocol

    class SimGitClient(TraditionalGitClient):
        def _connect(self, cmd, path, protocol_version=None):
            if not isinstance(path, bytes):
                path = path.encode("utf-8")
            ep = endpoint_factory(cmd, path)
            rfile = io.BufferedReader(_Raw(ep), buffer_size=kw.get(
                "rbuf", 8192))

            def close():
                ep.close()

            def shutdown_write():
                ep.close_write()

            proto = Protocol(rfile.read, ep.sendall, close,
                             report_activity=self._report_activity,
                             shutdown_write=shutdown_write)
            # the in-repo server speaks v0/v1 only
            self.protocol_version = 0
            proto.send_cmd(b"git-" + cmd, path, b"host=sim")
            return proto, ep.can_read, None

        def get_url(self, path):
            return "sim://server" + (path if isinstance(path, str)
                                     else path.decode())

    ckw = {k: v for k, v in kw.items()
           if k in ("thin_packs", "include_tags", "quiet")}
    return SimGitClient(**ckw)


def restricted_handlers(drop_caps=(), upload_extra=None):
    """Upload/ReceivePackHandler subclasses with some capabilities removed."""
    from dulwich.server import ReceivePackHandler, UploadPackHandler
    drop = set(drop_caps)

    class UP(UploadPackHandler):
        def capabilities(self):
            return [c for c in super().capabilities() if c not in drop]

    class RP(ReceivePackHandler):
        def capabilities(self):
            return [c for c in super().capabilities() if c not in drop]

    return {b"git-upload-pack": UP, b"git-receive-pack": RP}


def serve_one(ep, backend, handlers, result):
    """Server actor body for one connection."""
    from dulwich.errors import GitProtocolError, HangupException
    from dulwich.protocol import ReceivableProtocol
    proto = ReceivableProtocol(ep.recv, ep.sendall)
    try:
        command, args = proto.read_cmd()
        cls = handlers[command]
        h = cls(backend, args, proto)
        result["handler"] = h
        h.handle()
        result["ok"] = True
    except (HangupException, GitProtocolError, OSError) as e:
        result["error"] = repr(e)
    finally:
        ep.close()


# ----------------------------------------------------------- smart HTTP
class _HttpResp:
    def __init__(self, status, headers):
        self.status = status
        self.content_type = headers.get("content-type")
        self.redirect_location = None

    def close(self):
        pass


class HttpSim:
    """In-process smart-HTTP round trips against dulwich.web's WSGI
    application.  One request = one call of the application, executed in the
    calling actor (the server is stateless between requests), so every file
    access of the request is a yield point at which other actors -- a second
    client, or something changing the served repository -- interleave.

    faults: [{"req": n-th request (0-based), "kind": "reset-before" |
    "reset-after" | "truncate", "at": byte offset of the response body}]
    """

    def __init__(self, sim, backend, handlers, faults=(), chunk_max=None,
                 name="http", rbuf=8192):
        from dulwich.web import make_wsgi_chain
        self.sim = sim
        self.app = make_wsgi_chain(backend, handlers=handlers)
        self.faults = {f["req"]: f for f in faults}
        self.nreq = 0
        self.chunk_max = chunk_max
        self.rbuf = rbuf
        self.name = name
        self.rng = sim.rng("http-" + name)
        self.server_errors = []
        self.log = []

    def request(self, url, headers, data):
        import io as _io
        from urllib.parse import urlparse
        sim = self.sim
        n = self.nreq
        self.nreq += 1
        f = self.faults.get(n)
        u = urlparse(url)
        if data is not None and not isinstance(data, bytes):
            data = b"".join(data)
        sim.yield_point("http-send")
        sim.log(sim.current.name if sim.current else "?", "http-request",
                None, ("POST" if data is not None else "GET",
                       u.path.rsplit("/", 2)[-1], len(data or b"")))
        if f and f["kind"] == "reset-before":
            sim.stat("fault:http-reset-before-request")
            raise ConnectionResetError("simulated: connection reset")
        environ = {
            "REQUEST_METHOD": "POST" if data is not None else "GET",
            "SCRIPT_NAME": "", "PATH_INFO": u.path,
            "QUERY_STRING": u.query or "",
            "SERVER_NAME": "sim", "SERVER_PORT": "80",
            "SERVER_PROTOCOL": "HTTP/1.1",
            "wsgi.version": (1, 0), "wsgi.url_scheme": "http",
            "wsgi.input": _io.BytesIO(data or b""),
            "wsgi.errors": _io.StringIO(),
            "wsgi.multithread": False, "wsgi.multiprocess": True,
            "wsgi.run_once": False,
        }
        if data is not None:
            environ["CONTENT_LENGTH"] = str(len(data))
        for k, v in (headers or {}).items():
            kk = k.upper().replace("-", "_")
            if kk == "CONTENT_TYPE":
                environ["CONTENT_TYPE"] = v
            elif kk != "CONTENT_LENGTH":
                environ["HTTP_" + kk] = v
        out = []
        st = {}

        def start_response(status, hdrs, exc_info=None):
            st["status"] = int(status.split(" ", 1)[0])
            st["headers"] = {k.lower(): v for k, v in hdrs}

            def write(b):
                out.append(bytes(b))
                return len(b)
            return write
        try:
            for chunk in self.app(environ, start_response):
                if chunk:
                    out.append(bytes(chunk))
        except Exception as e:  # noqa: BLE001 - the server side failed
            # a real server aborts the response: the client sees whatever was
            # sent so far, then the connection closes
            self.server_errors.append(type(e).__name__ + ": " + str(e)[:200])
            import os as _os
            if _os.environ.get("VERIF_DEBUG_TB"):
                import traceback
                traceback.print_exc()
            sim.stat("probe:http_server_exception")
            st.setdefault("status", 500)
            st.setdefault("headers", {})
            st["aborted"] = True
        body = b"".join(out)
        sim.yield_point("http-recv")
        if f and f["kind"] == "reset-after":
            sim.stat("fault:http-reset-after-request")
            raise ConnectionResetError("simulated: connection reset")
        truncated = st.get("aborted", False)
        if f and f["kind"] == "truncate" and f["at"] < len(body):
            body = body[:f["at"]]
            truncated = True
            sim.stat("fault:http-response-truncated")
        from .simnet import ChunkedStream
        cuts = []
        if self.chunk_max and body:
            pos = 0
            while pos < len(body) and len(cuts) < 4096:
                k = self.rng.randint(1, self.chunk_max)
                cuts.append(k)
                pos += k
        stream = ChunkedStream(body, cuts, end="reset" if truncated else "eof")
        resp = _HttpResp(st.get("status", 500), st.get("headers", {}))
        # an HTTP client's read(n) blocks until n bytes or the end of the body
        return resp, _io.BufferedReader(stream, buffer_size=self.rbuf)


def make_http_client(sim, http, **kw):
    from dulwich.client import AbstractHttpGitClient
    from dulwich.errors import GitProtocolError, NotGitRepository

    class SimHttpClient(AbstractHttpGitClient):
        def _http_request(self, url, headers=None, data=None,
                          raise_for_status=True):
            resp, stream = http.request(url, headers, data)
            if resp.status == 404:
                raise NotGitRepository()
            if raise_for_status and resp.status != 200:
                raise GitProtocolError(
                    f"unexpected http resp {resp.status} for {url}")
            return resp, stream.read

        def _post_buffer_size(self, url):
            return 1 << 30

    ckw = {k: v for k, v in kw.items()
           if k in ("thin_packs", "include_tags", "quiet")}
    return SimHttpClient("http://sim/", **ckw)
