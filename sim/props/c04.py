"""C04 -- corrupt or hostile input is contained; failed ingestion leaves no
trace.

The simulator owns the reader callables and the stored bytes: a pack stream is
fed to every ingestion path under simulator-chosen fragmentation, with single
bit/byte mutations, truncations, tails and grammar-aware attacks; stored files
are damaged between two operations and read back by a fresh process.
"""

from __future__ import annotations

import gc
import hashlib
import io
import json
import os
import random
import signal
import struct
import zlib

from .. import simfs, util
from ..kernel import Sim, derive_seed
from ..simfs import R
from ..simnet import ChunkedStream, StreamSpin
from ..workloads import history as H
from ..workloads import packs as P

PROP_ID = "C04"
LEVEL = "fault_enumeration"
RULE = ("seeded plans: (stream) base pack in {plain, ofs-chain, thin-ref, "
        "mixed} x ingestion path in {add_thin_pack, add_pack+commit, "
        "add_pack_data, PackStreamReader, PackStreamCopier} x store in {disk, "
        "memory} x mutation family in {every bit, byte values, every "
        "truncation, tails, grammar attacks} (a shard of the offsets per plan, "
        "the families together cover every offset of the base pack), read "
        "chunking chosen by the simulator; (stored) victim file in {pack, idx, "
        "loose, index, packed-refs, commit-graph, midx} x the same mutation "
        "families, read by a fresh Repo. One evaluation = one (input, path) "
        "pair; distinct by hash of the mutated bytes + path; non-trivial when "
        "the input differs from the valid original.")
ASSUMPTIONS = [
    "promptness is decided by a deterministic budget (reads after EOF) and a "
    "wall-clock net of 5 s that only counts if it reproduces with a 10x "
    "allowance",
    "files without redundancy (pack entry headers, idx offset tables, "
    "packed-refs) may yield a well-formed but different answer; this is "
    "counted under its own class wrong-data-from-damaged-file",
    "the pack writer in sim/workloads/packs.py is independent of dulwich's",
]
COMPONENTS = {
    "real": ["dulwich.pack PackStreamReader/PackStreamCopier/PackIndexer/"
             "PackData/load_pack_index", "dulwich.object_store "
             "DiskObjectStore/MemoryObjectStore ingestion paths",
             "dulwich.index, dulwich.refs (packed-refs), dulwich.commit_graph, "
             "dulwich.midx readers", "zlib"],
    "stub": ["socket/pipe (ChunkedStream)", "bit rot (bytes flipped in the "
             "sandbox between operations)"],
}
PROBES = {"ingest_failed_clean": 1, "ingest_succeeded_mutated": 1,
          "eof_inside_pack": 1, "delta_cycle_tried": 1, "bomb_tried": 1,
          "stored_file_detected": 1}
MIN_BUDGET = 60

PATHS_DISK = ["add_thin_pack", "add_pack", "add_pack_data", "reader",
              "copier", "receive_pack"]
PATHS_MEM = ["add_thin_pack", "add_pack", "add_pack_data", "receive_pack"]
VICTIMS = ["pack", "idx", "loose", "index", "packed-refs", "commit-graph",
           "midx"]


class Timeout(BaseException):
    pass


FAULT_COUNTERS = {
    "inj:*": "corruption/",
    "probe:eof_inside_pack": "stream EOF inside the pack",
}


def budget(tier):
    return 1440 if tier == "quick" else 60000


def gen_plan(seed, tier):
    rng = random.Random(derive_seed(seed, "c04plan"))
    m = seed % 12
    if m in (0, 1, 2):
        return {"kind": "stored", "seed": seed,
                "victim": VICTIMS[(seed // 12) % len(VICTIMS)],
                "family": rng.choice(["bits", "bytes", "trunc", "tail",
                                      "zero-fill"]),
                "shard": rng.randrange(8), "nshards": 8}
    store = "memory" if m == 3 else "disk"
    paths = PATHS_MEM if store == "memory" else PATHS_DISK
    if m in (4, 5):
        return {"kind": "grammar", "seed": seed, "store": store,
                "path": paths[(seed // 12) % len(paths)],
                "cut": rng.choice(["whole", "small", "mixed"])}
    return {"kind": "stream", "seed": seed, "store": store,
            "base": rng.choice(["plain", "ofs", "thin", "mixed"]),
            "path": paths[(seed // 12) % len(paths)],
            "family": rng.choice(["bits", "bits", "bytes", "trunc", "tail",
                                  "retrailed-bits"]),
            "shard": rng.randrange(6), "nshards": 6,
            "cut": rng.choice(["whole", "whole", "ones", "small", "mixed"])}


# ----------------------------------------------------------- fixtures
def base_objects():
    b1 = b"hello world\n" * 3
    b2 = b"hello world\n" * 3 + b"more\n"
    b3 = b"hello world\n" * 2 + b"changed line\n" + b"more\n"
    return b1, b2, b3


def make_base(kind):
    """-> (pack bytes, layout, expected {id: (type, raw)}, external bases
    {id: (type, raw)} that must pre-exist)."""
    b1, b2, b3 = base_objects()
    ext = {}
    if kind == "plain":
        ents = [P.Entry("full", 3, b1), P.Entry("full", 3, b2),
                P.Entry("full", 3, b"")]
        exp = [(3, b1), (3, b2), (3, b"")]
    elif kind == "ofs":
        ents = [P.Entry("full", 3, b1),
                P.Entry("ofs", data=P.simple_delta(b1, b2), base=0),
                P.Entry("ofs", data=P.simple_delta(b2, b3), base=1)]
        exp = [(3, b1), (3, b2), (3, b3)]
    elif kind == "thin":
        base_id = P.obj_id(b"blob", b1)
        ext[base_id] = (3, b1)
        from binascii import unhexlify
        ents = [P.Entry("ref", data=P.simple_delta(b1, b2),
                        base=unhexlify(base_id)),
                P.Entry("full", 3, b3)]
        exp = [(3, b2), (3, b3)]
    else:
        tree_raw = b"100644 f\0" + bytes.fromhex(
            P.obj_id(b"blob", b1).decode())
        ents = [P.Entry("full", 3, b1), P.Entry("full", 2, tree_raw),
                P.Entry("ofs", data=P.simple_delta(b1, b3), base=0)]
        exp = [(3, b1), (2, tree_raw), (3, b3)]
    pack, layout = P.build(ents)
    expected = {}
    for tn, raw in exp:
        expected[P.obj_id(H.TYPE_NAMES[tn], raw)] = (tn, raw)
    return pack, layout, expected, ext


def mutations(data, family, shard, nshards, rng):
    """Yield (label, mutated bytes)."""
    n = len(data)
    offs = [i for i in range(n) if i % nshards == shard]
    if family in ("bits", "retrailed-bits"):
        for i in offs:
            for b in range(8):
                m = bytearray(data)
                m[i] ^= 1 << b
                m = bytes(m)
                if family == "retrailed-bits":
                    m = P.retrail(m)
                yield (f"bit{i}.{b}", m)
    elif family == "bytes":
        for i in offs:
            for v in (0x00, 0xFF, 0x80, 0x7F, (data[i] + 1) & 0xFF):
                if v == data[i]:
                    continue
                m = bytearray(data)
                m[i] = v
                yield (f"byte{i}={v:02x}", bytes(m))
    elif family == "trunc":
        for i in range(n):
            if i % nshards == shard:
                yield (f"trunc{i}", data[:i])
    elif family == "tail":
        for t in (b"\0", b"x", b"PACK", data[-20:], data[:12], b"\0" * 64,
                  bytes(rng.randrange(256) for _ in range(30))):
            yield (f"tail{len(t)}", data + t)
    elif family == "zero-fill":
        for i in offs[::4]:
            for ln in (4, 64):
                m = bytearray(data)
                m[i:i + ln] = b"\0" * len(m[i:i + ln])
                yield (f"zero{i}+{ln}", bytes(m))


def grammar_attacks():
    """Structural attacks built from the pack grammar.  -> list of
    (label, pack bytes, ext objects, class)."""
    from binascii import unhexlify
    b1, b2, b3 = base_objects()
    out = []
    plain = [P.Entry("full", 3, b1), P.Entry("full", 3, b2)]
    for c in (0, 1, 3, 100, 2**31, 2**32 - 1):
        out.append((f"count={c}", P.build(plain, count=c)[0], {}, "count"))
    out.append(("wrong-trailer", P.build(plain, trailer=b"\x11" * 20)[0], {},
                "trailer"))
    out.append(("version=3", P.build(plain, version=3)[0], {}, "version"))
    out.append(("version=9", P.build(plain, version=9)[0], {}, "version"))
    d12 = P.simple_delta(b1, b2)
    for label, ofs in (("ofs=0", 0), ("ofs-beyond-start", 10**6),
                       ("ofs-into-header", 14), ("ofs-mid-object", 5)):
        ents = [P.Entry("full", 3, b1), P.Entry("ofs", data=d12, base=0,
                                                ofs=ofs)]
        out.append((label, P.build(ents)[0], {}, "ofs"))
    # forward reference: delta placed before its base, negative distance
    # cannot be encoded; point at own offset instead (self reference)
    id1 = P.obj_id(b"blob", b1)
    id2 = P.obj_id(b"blob", b2)
    id3 = P.obj_id(b"blob", b3)
    # REF delta whose base is itself
    out.append(("ref-self", P.build([P.Entry(
        "ref", data=P.simple_delta(b2, b2), base=unhexlify(id2))])[0], {},
        "cycle"))
    # missing base
    out.append(("ref-missing", P.build([P.Entry(
        "ref", data=d12, base=b"\x42" * 20)])[0], {}, "missing-base"))
    # 2-cycle and 3-cycle
    out.append(("ref-2cycle", P.build([
        P.Entry("ref", data=P.simple_delta(b2, b1), base=unhexlify(id2)),
        P.Entry("ref", data=P.simple_delta(b1, b2), base=unhexlify(id1))])[0],
        {}, "cycle"))
    out.append(("ref-3cycle", P.build([
        P.Entry("ref", data=P.simple_delta(b3, b1), base=unhexlify(id3)),
        P.Entry("ref", data=P.simple_delta(b1, b2), base=unhexlify(id1)),
        P.Entry("ref", data=P.simple_delta(b2, b3), base=unhexlify(id2))])[0],
        {}, "cycle"))
    # zlib stream with trailing garbage / size header disagreeing
    out.append(("zlib-trailing-garbage", P.build([
        P.Entry("full", 3, b1, tail=b"GARBAGE"), P.Entry("full", 3, b2)])[0],
        {}, "zlib"))
    for label, ds in (("size-too-big", len(b1) + 5),
                      ("size-too-small", len(b1) - 5), ("size-zero", 0),
                      ("size-huge", 2**40)):
        out.append((label, P.build([P.Entry("full", 3, b1,
                                            declared_size=ds)])[0], {},
                    "size"))
    # delta whose declared sizes lie
    bad = bytearray(d12)
    bad[0] = (bad[0] + 1) & 0x7F
    out.append(("delta-src-size-wrong", P.build([
        P.Entry("full", 3, b1), P.Entry("ofs", data=bytes(bad), base=0)])[0],
        {}, "delta"))
    bad = bytearray(d12)
    bad[1] = (bad[1] + 3) & 0x7F
    out.append(("delta-dst-size-wrong", P.build([
        P.Entry("full", 3, b1), P.Entry("ofs", data=bytes(bad), base=0)])[0],
        {}, "delta"))
    out.append(("delta-copy-out-of-range", P.build([
        P.Entry("full", 3, b1),
        P.Entry("ofs", data=P.delta_header_size(len(b1)) +
                P.delta_header_size(50) + bytes([0x91, 0xF0, 50]), base=0)])[0],
        {}, "delta"))
    out.append(("delta-empty", P.build([
        P.Entry("full", 3, b1), P.Entry("ofs", data=b"", base=0)])[0], {},
        "delta"))
    # invalid object types
    for t in (0, 5):
        out.append((f"type={t}", P.build([P.Entry("full", t, b1)])[0], {},
                    "type"))
    # decompression bombs: small declared size, or honest but huge
    bomb = zlib.compress(b"\0" * (24 << 20), 9)
    out.append(("bomb-small-declared", P.build([P.Entry(
        "full", 3, b"", declared_size=10, comp=bomb)])[0], {}, "bomb"))
    out.append(("bomb-delta", P.build([
        P.Entry("full", 3, b1),
        P.Entry("ofs", data=b"", base=0, declared_size=10, comp=bomb)])[0],
        {}, "bomb"))
    # a tree that does not parse, a commit that does not parse
    out.append(("garbage-tree", P.build([P.Entry("full", 2,
                                                 b"not a tree")])[0], {},
                "unparsable"))
    out.append(("garbage-commit", P.build([P.Entry("full", 1,
                                                   b"tree zzz\n")])[0], {},
                "unparsable"))
    # deep OFS chain
    ents = [P.Entry("full", 3, b1)]
    cur = b1
    for i in range(1200):
        nxt = cur[:-1] + bytes([(cur[-1] + 1) & 0xFF]) if i % 2 else \
            cur + b"x"
        ents.append(P.Entry("ofs", data=P.simple_delta(cur, nxt),
                            base=len(ents) - 1))
        cur = nxt
    out.append(("deep-ofs-chain-1200", P.build(ents)[0], {}, "deep-chain"))
    out.append(("empty-pack", P.build([])[0], {}, "empty"))
    out.append(("not-a-pack", b"GARBAGE" * 10, {}, "magic"))
    out.append(("empty-stream", b"", {}, "magic"))
    return out


# -------------------------------------------------------------- ingestion
def cuts_for(mode, n, rng):
    if mode == "whole":
        return []
    if mode == "ones":
        return [1] * n
    cuts = []
    tot = 0
    while tot < n:
        k = rng.randint(1, 7) if mode == "small" else \
            rng.choice([1, 2, 3, 20, 100, 4096])
        cuts.append(k)
        tot += k
    return cuts


class UnpackRefused(Exception):
    """receive-pack answered 'unpack <error>': an ordinary, reported failure."""


INCOMING = b"refs/heads/incoming"


def receive_pack(repo, data, cuts, new_id):
    """One push of ``data`` through ReceivePackHandler (the server's ingestion
    path): a create command for refs/heads/incoming, then the pack."""
    from dulwich.protocol import ReceivableProtocol, pkt_line
    from dulwich.server import DictBackend, ReceivePackHandler
    req = pkt_line(b"0" * 40 + b" " + new_id + b" " + INCOMING +
                   b"\0report-status") + b"0000"
    st = ChunkedStream(req + data, [len(req)] + list(cuts), "eof")
    out = []
    proto = ReceivableProtocol(st.recv, out.append, rbufsize=4096)
    h = ReceivePackHandler(DictBackend({b"/": repo}), [b"/"], proto)
    h.handle()
    reply = b"".join(out)
    lines = []
    pos = 0
    while pos + 4 <= len(reply):
        n = int(reply[pos:pos + 4], 16)
        if n == 0:
            pos += 4
            continue
        lines.append(reply[pos + 4:pos + n])
        pos += n
    # (the reply starts with the ref advertisement)
    rep = [ln for ln in lines if ln.startswith(b"unpack ")]
    lines = lines[lines.index(rep[0]):] if rep else []
    first = lines[0].rstrip(b"\n") if lines else b"(no report)"
    if first != b"unpack ok":
        raise UnpackRefused(first.decode("utf-8", "replace")[:200])
    return st, lines


def ingest(store, path, data, cuts, is_disk, repo=None, new_id=None):
    """Run one ingestion. -> ('ok'|'raised', detail, stream)."""
    if path == "receive_pack":
        return receive_pack(repo, data, cuts, new_id or b"1" * 40)[0]
    from dulwich.object_format import DEFAULT_OBJECT_FORMAT
    from dulwich.pack import PackStreamCopier, PackStreamReader
    from dulwich.protocol import ReceivableProtocol
    st = ChunkedStream(data, cuts, "eof")
    proto = ReceivableProtocol(st.recv, lambda b: None, rbufsize=4096)

    def read_all(n):
        if n <= 0:
            return b""
        return proto.read(n)

    def read_some(n):
        return proto.recv(n)
    hf = DEFAULT_OBJECT_FORMAT.hash_func
    if path == "add_thin_pack":
        store.add_thin_pack(read_all, read_some)
    elif path == "add_pack":
        f, commit, abort = store.add_pack()
        try:
            f.write(data)
        except BaseException:
            abort()
            raise
        # like dulwich's own callers: a failed commit() is not followed by
        # abort()
        commit()
    elif path == "add_pack_data":
        rd = PackStreamReader(hf, read_all, read_some)
        it = rd.read_objects()
        first = []
        try:
            first.append(next(it))
        except StopIteration:
            pass

        def chain():
            yield from first
            yield from it
        store.add_pack_data(len(rd), chain())
    elif path == "reader":
        rd = PackStreamReader(hf, read_all, read_some)
        for _ in rd.read_objects():
            pass
    elif path == "copier":
        out = io.BytesIO()
        PackStreamCopier(hf, read_all, read_some, out).verify()
    else:
        raise ValueError(path)
    return st


BAD_EXC = (MemoryError, RecursionError, SystemError)


def _alarm(signum, frame):
    raise Timeout()


class _Exc:
    """What an oracle needs to know about an exception, without keeping its
    traceback (frames hold memoryviews of mmapped packs alive)."""

    def __init__(self, e):
        self.name = type(e).__name__
        self.text = repr(e)[:300]

    def __repr__(self):
        return self.text


class Bench:
    """A store in a known pre-state that can be reset cheaply."""

    def __init__(self, kind, root, ext):
        self.kind = kind
        self.root = root
        self.ext = ext
        self.n = 0
        self.tmpl = os.path.join(root, "tmpl")
        self.cur = None
        self.pre = None
        self.store = None
        self.repo = None
        # what a push of the fixture pack asks refs/heads/incoming to name
        self.new_id = None
        if kind == "disk":
            r = util.init_repo(self.tmpl, bare=True)
            self._fill(r.object_store)
            r.object_store.pack_loose_objects()
            r.object_store.add_object(util.mk_blob(b"a loose bystander\n"))
            r.close()
        self.reset()

    def _fill(self, st):
        from dulwich.objects import ShaFile
        st.add_object(util.mk_blob(b"bystander one\n"))
        st.add_object(util.mk_blob(b"bystander two\n" * 20))
        for oid, (tn, raw) in self.ext.items():
            st.add_object(ShaFile.from_raw_string(tn, raw))

    def reset(self):
        from dulwich.object_store import MemoryObjectStore
        from dulwich.repo import Repo
        if self.repo is not None:
            self.repo.close()
            self.repo = None
        if self.kind == "memory":
            from dulwich.repo import MemoryRepo
            self.repo = MemoryRepo()
            self.store = self.repo.object_store
            self._fill(self.store)
        else:
            if self.cur:
                util.real_rmtree(self.cur)
            self.n += 1
            self.cur = os.path.join(self.root, f"w{self.n}")
            util.real_copytree(self.tmpl, self.cur)
            self.repo = Repo(self.cur)
            self.store = self.repo.object_store
        self.pre = self.snapshot(self.store)
        self.pre_files = self.files()

    def snapshot(self, store):
        out = {}
        for oid in store:
            out[oid] = store.get_raw(oid)
        return out

    def files(self):
        if self.kind != "disk":
            return set()
        base = os.path.join(self.cur, "objects")
        out = set()
        for dp, dns, fns in simfs.real_walk(base):
            for n in fns:
                out.add(os.path.relpath(os.path.join(dp, n), base))
        return out

    def fresh_snapshot(self):
        from dulwich.repo import Repo
        if self.kind != "disk":
            return None
        r = Repo(self.cur)
        try:
            return self.snapshot(r.object_store)
        finally:
            r.close()

    def close(self):
        if self.repo is not None:
            self.repo.close()
            self.repo = None


def judge_ingest(ctx, bench, path, label, data, cuts, valid, expected, cls,
                 probe=None):
    """One evaluation of the oracle.  ``probe``: ids the undamaged stream
    would have added; asked of the same store object straight after a
    failure, before anything makes it rescan its directory."""
    import tracemalloc
    store_path = path in ("add_thin_pack", "add_pack", "add_pack_data",
                          "receive_pack")
    tag = f"{path}/{bench.kind}/{cls}"
    outcome = None
    exc = None
    st = None
    trace_mem = cls == "bomb"
    if trace_mem:
        tracemalloc.start()
        base_mem = tracemalloc.get_traced_memory()[0]
    for allowance in (5, 50):
        old = signal.signal(signal.SIGALRM, _alarm)
        signal.setitimer(signal.ITIMER_REAL, allowance)
        try:
            st = ingest(bench.store, path, data, cuts, bench.kind == "disk",
                        repo=bench.repo, new_id=bench.new_id)
            outcome = "ok"
        except Timeout:
            outcome = "timeout"
        except StreamSpin as e:
            outcome = "spin"
            exc = _Exc(e)
        except BAD_EXC as e:
            outcome = "bad-exception"
            exc = _Exc(e)
        except Exception as e:  # noqa: BLE001
            outcome = "raised"
            exc = _Exc(e)
        finally:
            signal.setitimer(signal.ITIMER_REAL, 0)
            signal.signal(signal.SIGALRM, old)
        if outcome != "timeout":
            break
        if store_path:
            bench.reset()
    if trace_mem:
        peak = tracemalloc.get_traced_memory()[1] - base_mem
        tracemalloc.stop()
        ctx.stat("probe:bomb_tried")
        if peak > (12 << 20):
            ctx.v(f"memory/{tag}/{label}",
                  f"peak {peak >> 20} MiB while ingesting a "
                  f"{len(data)}-byte pack ({label})")
    gc.collect()
    ctx.case([hashlib.sha1(data).hexdigest(), path, bench.kind,
              len(cuts) > 0], data != valid)
    if data != valid:
        ctx.stat("inj:stream/" + cls)
    if cuts:
        ctx.stat("inj:read-chunking")
    if cls == "cycle":
        ctx.stat("probe:delta_cycle_tried")
    if outcome == "timeout":
        ctx.v(f"timeout/{tag}/{label}", f"{len(data)} bytes, no result within "
              f"50 s (solo re-run with 10x allowance)")
        bench.reset()
        return
    if outcome == "spin":
        ctx.v(f"eof-spin/{tag}", f"{label}: {exc}")
        if store_path:
            bench.reset()
        return
    if outcome == "bad-exception":
        ctx.v(f"abnormal-exception/{tag}/{exc.name}",
              f"{label}: {exc!r}"[:300])
        if store_path:
            bench.reset()
        return
    if not store_path:
        if outcome == "ok" and data != valid and cls in (
                "bits", "bytes", "trunc", "trailer"):
            # a stream whose trailer no longer matches must not verify
            ctx.v(f"damaged-stream-accepted/{tag}", f"{label}")
        return
    # --- post-state of the store
    gc.collect()
    if outcome == "raised" and probe:
        st_ = bench.store
        for oid in sorted(probe):
            if oid in bench.pre:
                continue
            got = None
            try:
                if oid in st_:
                    got = "contains -> True"
                else:
                    try:
                        st_.get_raw(oid)
                        got = "get_raw -> data"
                    except KeyError:
                        pass
            except Exception as e:  # noqa: BLE001
                got = "raised " + type(e).__name__
            if got:
                ctx.v(f"visible-after-failure/{tag}/same-instance-direct",
                      f"{label}: ingestion raised {exc.name}; asked at once, "
                      f"the same store object says {got} for {oid}")
                break
        if bench.kind == "disk":
            try:
                listed = len(list(st_.packs))
            except Exception as e:  # noqa: BLE001
                listed = "raised " + type(e).__name__
            fl = bench.files()
            # a pack exists when both files do; temp files are not packs
            ondisk = len([f for f in fl if f.endswith(".pack") and
                          f[:-5] + ".idx" in fl])
            if listed != ondisk:
                ctx.v(f"pack-listed-after-failure/{tag}",
                      f"{label}: store.packs -> {listed}, {ondisk} pack "
                      f"file(s) on disk")
    now = None
    err = None
    try:
        now = bench.snapshot(bench.store)
    except Exception as e:  # noqa: BLE001
        err = _Exc(e)
    if err is not None:
        gc.collect()
        ctx.v(f"store-unreadable-after-ingest/{tag}/{outcome}",
              f"{label}: ingestion {outcome} ({exc!r}); then reading the "
              f"store raised {err!r}"[:400])
        bench.reset()
        return
    fresh = bench.fresh_snapshot()
    if path == "receive_pack" and bench.repo is not None:
        try:
            created = bench.repo.refs.read_ref(INCOMING)
        except Exception:  # noqa: BLE001
            created = None
        if created is not None:
            if outcome == "raised":
                ctx.v(f"ref-updated-after-failed-unpack/{tag}",
                      f"{label}: {INCOMING!r} -> {created!r} although the "
                      f"push failed ({exc!r})"[:300])
            elif created not in (now or {}):
                ctx.v(f"ref-names-missing-object/{tag}",
                      f"{label}: {INCOMING!r} -> {created!r}")
            try:
                del bench.repo.refs[INCOMING]
            except Exception:  # noqa: BLE001
                pass
    if outcome == "raised":
        ctx.stat("probe:ingest_failed_clean")
        if valid is not None and data == valid and path != "add_pack_data":
            # (add_pack_data is fed what PackStreamReader yields, which for
            # packs with offset deltas is not something it can re-encode)
            # the undamaged stream: if this path cannot take it, nothing
            # the damaged ones show means anything
            ctx.v(f"valid-pack-rejected/{tag}/{exc.name}",
                  f"{label}: {exc!r}"[:300])
        if valid is not None and len(data) < len(valid):
            ctx.stat("probe:eof_inside_pack")
        for who, snap in (("same-instance", now), ("fresh-process", fresh)):
            if snap is None:
                continue
            if set(snap) != set(bench.pre):
                extra = sorted(set(snap) - set(bench.pre))
                ctx.v(f"visible-after-failure/{tag}/{who}",
                      f"{label}: ingestion raised {exc.name} but "
                      f"{len(extra)} new object(s) are visible, e.g. "
                      f"{extra[:2]}; exc={exc!r}"[:400])
            elif snap != bench.pre:
                ctx.v(f"preexisting-damaged/{tag}/{who}", f"{label}")
        newf = bench.files() - bench.pre_files
        pk = {f[:-5] for f in newf if f.endswith(".pack")}
        ix = {f[:-4] for f in newf if f.endswith(".idx")}
        if pk & ix:
            ctx.v(f"pack-installed-after-failure/{tag}",
                  f"{label}: {sorted(pk & ix)[:2]} exc={exc!r}"[:300])
        if now != bench.pre or (fresh is not None and fresh != bench.pre) \
                or (pk & ix):
            bench.reset()
        return
    # success
    if data != valid:
        ctx.stat("probe:ingest_succeeded_mutated")
    for who, snap in (("same-instance", now), ("fresh-process", fresh)):
        if snap is None:
            continue
        for oid, (tn, raw) in snap.items():
            if oid in bench.pre:
                if (tn, raw) != bench.pre[oid]:
                    ctx.v(f"preexisting-damaged/{tag}/{who}", f"{label}")
                continue
            h = hashlib.sha1(H.TYPE_NAMES.get(tn, b"?") + b" %d\0" % len(raw)
                             + raw).hexdigest().encode()
            if h != oid:
                ctx.v(f"hash-mismatch-after-success/{tag}/{who}",
                      f"{label}: {oid} holds bytes hashing to {h}")
        missing = set(bench.pre) - set(snap)
        if missing:
            ctx.v(f"preexisting-damaged/{tag}/{who}",
                  f"{label}: {len(missing)} objects vanished")
    if data == valid and expected is not None:
        for oid, want in expected.items():
            if now.get(oid) != want:
                ctx.v(f"valid-pack-not-ingested/{tag}",
                      f"{oid} -> {now.get(oid)!r:.80}")
    if set(now) != set(bench.pre) or bench.files() != bench.pre_files:
        bench.reset()


class Ctx:
    def __init__(self):
        self.viols = []
        self.cases = []
        self.stats = {}

    def v(self, sig, detail):
        self.viols.append({"sig": "C04/" + sig, "detail": str(detail)[:600]})

    def case(self, key, nontrivial):
        self.cases.append((util.h8(key), bool(nontrivial)))

    def stat(self, k, n=1):
        self.stats[k] = self.stats.get(k, 0) + n


def run_stream(plan, ctx, root):
    rng = random.Random(derive_seed(plan["seed"], "c04s"))
    pack, layout, expected, ext = make_base(plan["base"])
    bench = Bench(plan["store"], root, ext)
    bench.new_id = sorted(expected)[0]
    try:
        # the valid pack must be accepted (sanity of the harness)
        judge_ingest(ctx, bench, plan["path"], "valid", pack, [], pack,
                     expected, "valid")
        bench.reset()
        only = plan.get("only")
        for label, data in mutations(pack, plan["family"], plan["shard"],
                                     plan["nshards"], rng):
            if only is not None and label not in only:
                continue
            cuts = cuts_for(plan["cut"], len(data), rng)
            judge_ingest(ctx, bench, plan["path"], label, data, cuts, pack,
                         None, plan["family"].replace("retrailed-", "re"),
                         probe=set(expected))
    finally:
        bench.close()


def run_grammar(plan, ctx, root):
    rng = random.Random(derive_seed(plan["seed"], "c04g"))
    bench = Bench(plan["store"], root, {})
    try:
        only = plan.get("only")
        for label, data, ext, cls in grammar_attacks():
            if only is not None and label not in only:
                continue
            cuts = cuts_for(plan["cut"], min(len(data), 3000), rng)
            judge_ingest(ctx, bench, plan["path"], label, data, cuts, None,
                         None, cls)
    finally:
        bench.close()


# ------------------------------------------------------------ stored files
def build_victim_repo(path):
    """A repository with every kind of stored file; returns the model."""
    from dulwich.repo import Repo
    rng = random.Random(5)
    u = H.Universe()
    r = util.init_repo(path)
    hist = H.gen_history(u, rng, 4, salt=b"V")
    ids = sorted(u.closure(hist["commits"] + list(hist["tags"].values())))
    u.add_to_store(r.object_store, ids)
    r.object_store.pack_loose_objects()
    loose = u.blob(b"a loose victim object\n" * 4)
    u.add_to_store(r.object_store, [loose])
    for i, h in enumerate(hist["heads"]):
        r.refs[b"refs/heads/b%d" % i] = h
    for k, v in hist["tags"].items():
        r.refs[k] = v
    r.refs.set_symbolic_ref(b"HEAD", b"refs/heads/b0")
    r.refs.pack_refs(all=True)
    r.object_store.write_commit_graph()
    r.object_store.write_midx()
    for n in ("a.txt", "b.txt", "dir"):
        pass
    with open(os.path.join(path, "a.txt"), "wb") as f:
        f.write(b"index me\n")
    from dulwich import porcelain
    porcelain.add(r, [os.path.join(path, "a.txt")])
    r.close()
    return u, ids + [loose], loose


def victim_file(path, victim, loose):
    g = os.path.join(path, ".git")
    if victim in ("pack", "idx"):
        d = os.path.join(g, "objects", "pack")
        n = [x for x in sorted(R.listdir(d)) if x.endswith("." + victim)][0]
        return os.path.join(d, n)
    if victim == "loose":
        return os.path.join(g, "objects", loose[:2].decode(),
                            loose[2:].decode())
    if victim == "index":
        return os.path.join(g, "index")
    if victim == "packed-refs":
        return os.path.join(g, "packed-refs")
    if victim == "commit-graph":
        return os.path.join(g, "objects", "info", "commit-graph")
    if victim == "midx":
        return os.path.join(g, "objects", "pack", "multi-pack-index")
    raise ValueError(victim)


def read_back(path, victim, u, ids):
    """What a fresh process reads through the normal API.  Exceptions are
    caught per query and returned as ('EXC', type)."""
    from dulwich.repo import Repo
    out = {}

    asked = []

    def q(key, fn, again=True):
        if again:
            asked.append((key, fn))
        try:
            out[key] = fn()
        except BAD_EXC as e:
            out[key] = ("BAD", type(e).__name__)
        except Exception as e:  # noqa: BLE001
            out[key] = ("EXC", type(e).__name__)
    try:
        r = Repo(path)
    except Exception as e:  # noqa: BLE001
        return {"open": ("EXC", type(e).__name__)}
    try:
        st = r.object_store
        if victim in ("pack", "idx", "loose", "midx"):
            for oid in ids:
                q(("get_raw", oid), lambda oid=oid: st.get_raw(oid))
            q("iter", lambda: sorted(st))
            q("contains", lambda: [i in st for i in ids])

            # store[id] promises more than get_raw(): what it returns hashes
            # to the name that was asked for -- for the known ids and for
            # whatever names a damaged index lists
            def getitem_all():
                names = set(ids)
                try:
                    names |= set(st)
                except Exception:  # noqa: BLE001
                    pass
                bad = []
                for oid in sorted(names):
                    try:
                        o = st[oid]
                    except Exception:  # noqa: BLE001
                        continue
                    raw = o.as_raw_string()
                    h = hashlib.sha1(H.TYPE_NAMES[o.type_num] +
                                     b" %d\0" % len(raw) + raw).hexdigest()
                    if h.encode() != oid or o.id != oid:
                        bad.append(oid)
                return ("MISNAMED", tuple(bad)) if bad else "consistent"
            q("getitem", getitem_all)
        elif victim == "index":
            q("index", lambda: sorted(
                (k, e.sha, e.mode) for k, e in r.open_index().items()))
        elif victim == "packed-refs":
            q("refs", lambda: sorted(r.refs.as_dict().items()))
            q("packed", lambda: sorted(r.refs.get_packed_refs().items()))
        elif victim == "commit-graph":
            def parents():
                res = []
                pp = r.parents_provider()
                for oid in ids:
                    if u.type_of(oid) == H.COMMIT:
                        res.append((oid, tuple(pp.get_parents(oid))))
                return res
            q("parents", parents)
        # the same questions once more through the same handle: damage that
        # was reported must not be forgotten by a cache filled on the way
        for key, fn in list(asked):
            q(("again", key), fn, again=False)
    finally:
        r.close()
    return out


def run_stored(plan, ctx, root):
    rng = random.Random(derive_seed(plan["seed"], "c04v"))
    tmpl = os.path.join(root, "vt")
    u, ids, loose = build_victim_repo(tmpl)
    victim = plan["victim"]
    vf = victim_file(tmpl, victim, loose)
    orig = util.read_real(vf)
    good = read_back(tmpl, victim, u, ids)
    if any(isinstance(v, tuple) and v and v[0] in ("EXC", "BAD")
           for v in good.values()):
        raise RuntimeError(f"undamaged {victim} does not read: {good}")
    # the answers a reader gives without the victim file (for accelerators)
    fam = plan["family"]
    only = plan.get("only")
    n = 0
    for label, data in mutations(orig, fam, plan["shard"], plan["nshards"],
                                 rng):
        if only is not None and label not in only:
            continue
        n += 1
        if n > 400:
            break
        work = os.path.join(root, "vw")
        util.real_rmtree(work)
        util.real_copytree(tmpl, work)
        wf = victim_file(work, victim, loose)
        R.chmod(wf, 0o644)
        fd = R.os_open(wf, os.O_WRONLY | os.O_TRUNC)
        try:
            R.write(fd, data)
        finally:
            R.close(fd)
        old = signal.signal(signal.SIGALRM, _alarm)
        signal.setitimer(signal.ITIMER_REAL, 20)
        try:
            got = read_back(work, victim, u, ids)
        except Timeout:
            ctx.v(f"timeout/stored/{victim}/{fam}", label)
            continue
        finally:
            signal.setitimer(signal.ITIMER_REAL, 0)
            signal.signal(signal.SIGALRM, old)
        ctx.case([victim, hashlib.sha1(data).hexdigest()], data != orig)
        if data != orig:
            ctx.stat(f"inj:stored-{victim}/{fam}")
        if victim == "index" and data[-20:] == b"\0" * 20:
            # an all-zero trailer is index.skipHash: such a file carries no
            # integrity check at all (git accepts it the same way)
            ctx.stat("index_skiphash_inputs")
            continue
        detected = False
        for key, val in got.items():
            if isinstance(key, tuple) and key and key[0] == "again":
                first = got.get(key[1])
                k1 = key[1][0] if isinstance(key[1], tuple) else key[1]
                if (isinstance(first, tuple) and first and first[0] == "EXC"
                        and not (isinstance(val, tuple) and val and
                                 val[0] in ("EXC", "BAD"))
                        and val != good.get(key[1])):
                    ctx.v(f"damage-reported-once-then-accepted/{victim}/{k1}",
                          f"{label}: query {key[1]!r:.70} raised {first[1]} "
                          f"the first time and answered {val!r:.100} the "
                          f"second time through the same handle")
                continue
            want = good.get(key)
            if isinstance(val, tuple) and val and val[0] == "MISNAMED":
                ctx.v(f"misnamed-object-from-getitem/{victim}",
                      f"{label}: store[id] returned, for {len(val[1])} "
                      f"name(s) (first {val[1][0]!r}), an object that does "
                      f"not hash to the name asked for")
            elif isinstance(val, tuple) and val and val[0] == "BAD":
                ctx.v(f"abnormal-exception/stored/{victim}/{val[1]}",
                      f"{label} query {key!r:.60}")
            elif isinstance(val, tuple) and val and val[0] == "EXC":
                detected = True
            elif val != want:
                k0 = key[0] if isinstance(key, tuple) else key
                ctx.v(f"wrong-data-from-damaged-file/{victim}/{fam}/{k0}",
                      f"{label}: query {key!r:.70} answered "
                      f"{val!r:.100} instead of {want!r:.100}")
        if "open" in got:
            detected = True
        if detected:
            ctx.stat("probe:stored_file_detected")


def run_plan(plan):
    ctx = Ctx()
    sim = Sim(seed=plan["seed"], sched={"policy": "sequential"})
    with util.Sandbox() as root:
        fs = simfs.FS(root, None)
        simfs.activate(fs)
        try:
            if plan["kind"] == "stream":
                run_stream(plan, ctx, root)
            elif plan["kind"] == "grammar":
                run_grammar(plan, ctx, root)
            else:
                run_stored(plan, ctx, root)
        finally:
            simfs.deactivate()
    seen = set()
    out = []
    for v in ctx.viols:
        if v["sig"] not in seen:
            seen.add(v["sig"])
            out.append(v)
    ctx.stats["kind:" + plan["kind"]] = 1
    dig = util.h8([c[0] for c in ctx.cases] + [v["sig"] for v in out])
    return {"violations": out, "digest": dig, "ihash": dig,
            "nontrivial": any(c[1] for c in ctx.cases), "trace": None,
            "stats": ctx.stats, "events": None, "cases": ctx.cases,
            "sample": {"plan": plan, "cases": len(ctx.cases)}}


def shrink(plan):
    # narrow to single labelled mutations by bisection over the label list
    def cp():
        return json.loads(json.dumps(plan))
    rng = random.Random(0)
    if plan["kind"] == "grammar":
        labels = [g[0] for g in grammar_attacks()]
    elif plan["kind"] == "stream":
        pack = make_base(plan["base"])[0]
        labels = [m[0] for m in mutations(pack, plan["family"], plan["shard"],
                                          plan["nshards"], rng)]
    else:
        return
    cur = plan.get("only") or labels
    if len(cur) > 1:
        h = len(cur) // 2
        for part in (cur[:h], cur[h:]):
            p = cp()
            p["only"] = part
            yield p
    if plan.get("cut") not in (None, "whole"):
        p = cp()
        p["cut"] = "whole"
        yield p
