"""C17 -- checkout never writes outside the work tree or into .git.

The guarantee is about file-system effects and the shim sees every one of
them: each mutating call is resolved (real path of its parent directory at
that instant) and must land inside the work tree; the control directory may
only change in the files checkout legitimately maintains.  1-3 adversarial
trees are materialised one after another (clone, checkout, reset --hard,
build_index_from_tree, update_working_tree), optionally with an injected error
in the middle of a checkout whose interrupted state the next tree lands on.
"""

from __future__ import annotations

import gc
import hashlib
import io
import json
import os
import random
import stat as _stat

from .. import simfs, util
from ..kernel import Sim, derive_seed
from ..simfs import R, is_injected

PROP_ID = "C17"
LEVEL = "exploration"
RULE = ("seeded plans: 1-3 trees whose entries are drawn from an adversarial "
        "alphabet ('..', '.', '', '.git' variants, NTFS/HFS spellings, names "
        "with / or \\\\, absolute paths, drive prefixes, odd bytes), symlink "
        "blobs to absolute/parent/sibling/.git targets, set-uid/gid/sticky/"
        "world-writable modes, symlink<->directory<->file replacements of the "
        "same name between consecutive trees; materialised by clone / "
        "checkout / switch / reset --hard / reset --mixed + --hard / "
        "restore / stash pop / apply_patch / am / build_index_from_tree / "
        "update_working_tree "
        "with core.protectNTFS/HFS on or off, optional injected error "
        "mid-checkout. Distinct by hash of the tree specs + operations; "
        "non-trivial when at least one entry is unsafe or a name changes kind "
        "between two trees.")
ASSUMPTIONS = [
    "the work tree sits six directories deep inside the sandbox and generated "
    "'..' chains are at most four long, so every escape lands in the "
    "monitored sandbox",
    "absolute symlink targets point into the sandbox (a canary directory) or "
    "at '/'; a mutating call that lands outside the sandbox is recorded as a "
    "violation and refused by the simulator (EACCES), never executed",
    "the control directory may change only in index, HEAD, ORIG_HEAD, refs/, "
    "logs/, objects/, packed-refs, shallow, and (for clone) config",
    "Windows/macOS file-system semantics are not simulated: NTFS/HFS "
    "spellings are only checked for being refused when protection is on",
]
COMPONENTS = {
    "real": ["dulwich.index build_index_from_tree/update_working_tree/"
             "validate_path/verify_leading_dirs/build_file_from_blob",
             "dulwich.porcelain clone/checkout/reset", "tmpfs symlink and "
             "rename semantics"],
    "stub": ["confinement monitor on every mutating syscall", "clock",
             "stat metadata", "fault injection mid-checkout"],
}
PROBES = {"unsafe_entry_present": 1, "symlink_then_dir": 1,
          "checkout_refused": 1, "interrupted_checkout": 1,
          "symlink_materialised": 1, "copy_patch_applied": 1,
          "sparse_checkout_run": 1}
MIN_BUDGET = 200

DEPTH = ["l1", "l2", "l3", "l4", "l5"]

SAFE_NAMES = [b"a", b"b.txt", b"dir", b"sub", b"x y", b"caf\xc3\xa9",
              b"\xff\xfe", b"link", b"swap", b"deep"]
UNSAFE_NAMES = [b"..", b".", b".git", b".GIT", b".Git", b".git ", b".git.",
                b"git~1", b"GIT~1", b".git::$INDEX_ALLOCATION", b".git\\x",
                b"..\\up", b"a/../../esc", b"../esc", b"../../esc2",
                b"/abs", b"C:", b"C:\\w", b".git/hooks", b".g\xe2\x80\x8cit",
                b".gitmodules ", b"con", b"aux.txt"]
# entries that every configuration must refuse
ALWAYS_UNSAFE = {b"..", b".", b".git", b".GIT", b".Git", b"a/../../esc",
                 b"../esc", b"../../esc2", b"/abs", b".git/hooks"}


def budget(tier):
    return 8000 if tier == "quick" else 500000


def gen_tree(rng, depth=0, p_unsafe=0.4):
    """-> list of entry specs: dict(name hex, kind, ...)."""
    ents = []
    used = set()
    for _ in range(rng.randint(1, 5)):
        name = rng.choice(SAFE_NAMES) if rng.random() >= p_unsafe else \
            rng.choice(UNSAFE_NAMES)
        if name in used:
            continue
        used.add(name)
        r = rng.random()
        if r < 0.45:
            mode = rng.choice([0o100644, 0o100644, 0o100755, 0o104755,
                               0o102755, 0o101777, 0o100666, 0o100777,
                               0o100600])
            ents.append({"n": name.hex(), "k": "file", "mode": mode,
                         "c": rng.randrange(1000)})
        elif r < 0.7:
            tgt = rng.choice(["../outside-rel", "../../../../../../outside",
                              "ABS:outside", "ABS:wt/.git", ".git",
                              ".git/hooks", "sibling", "../", "/",
                              "ABS:wt/.git/hooks", "dir", ".",
                              "ABS:outside/canary", "../outside-rel/canary",
                              ".git/config", ".git/HEAD",
                              # dangling: what the link names does not exist
                              # (yet) -- writing through it would create it
                              "ABS:outside/created", "../outside-rel/created",
                              ".git/hooks/post-checkout", ".git/newfile",
                              ".git/hooks/post-checkout"])
            ents.append({"n": name.hex(), "k": "link", "t": tgt})
        elif depth < 2:
            ents.append({"n": name.hex(), "k": "dir",
                         "e": gen_tree(rng, depth + 1, p_unsafe)})
        else:
            ents.append({"n": name.hex(), "k": "file", "mode": 0o100644,
                         "c": rng.randrange(1000)})
    # names that relate to each other: a flat entry literally named
    # "<link>/payload" next to the symlink it would pass through, and a
    # symlink whose name merely *begins* with the name of a sibling directory
    # that holds several files ("a/x", "a/z", "ab" -> outside, "ab/y")
    for e in list(ents):
        name = bytes.fromhex(e["n"])
        if b"/" in name or name in (b"", b".", b".."):
            continue
        if e["k"] == "link" and rng.random() < 0.3:
            n2 = name + b"/payload"
            if n2 not in used:
                used.add(n2)
                ents.append({"n": n2.hex(), "k": "file", "mode": 0o100644,
                             "c": rng.randrange(1000)})
        if e["k"] == "dir" and rng.random() < 0.3:
            sib = name + rng.choice([b"b", b"-x", b"2"])
            if sib not in used and sib + b"/y" not in used:
                used.update([sib, sib + b"/y"])
                while sum(1 for x in e["e"] if x["k"] == "file") < 2:
                    nn = rng.choice([b"x", b"z", b"m", b"q"])
                    if nn.hex() not in {x["n"] for x in e["e"]}:
                        e["e"].append({"n": nn.hex(), "k": "file",
                                       "mode": 0o100644,
                                       "c": rng.randrange(1000)})
                ents.append({"n": sib.hex(), "k": "link",
                             "t": rng.choice(["ABS:outside", "../outside-rel",
                                              ".git", ".git/hooks"])})
                ents.append({"n": (sib + b"/y").hex(), "k": "file",
                             "mode": 0o100644, "c": rng.randrange(1000)})
    return ents


def mutate_tree(rng, ents):
    """The next tree: same names change kind (symlink<->dir<->file)."""
    out = []
    for e in ents:
        r = rng.random()
        if r < 0.35:
            out.append(e)
        elif r < 0.5:
            continue
        elif e["k"] == "link" and rng.random() < 0.4:
            # the same name becomes a regular file
            out.append({"n": e["n"], "k": "file",
                        "mode": rng.choice([0o100644, 0o100755]),
                        "c": rng.randrange(1000)})
        elif e["k"] == "link":
            out.append({"n": e["n"], "k": "dir", "e": [
                {"n": rng.choice([b"hooks", b"pwn", b"config", b"x"]).hex(),
                 "k": "file", "mode": 0o100755, "c": rng.randrange(1000)},
                {"n": b"sub".hex(), "k": "dir", "e": [
                    {"n": b"deepfile".hex(), "k": "file", "mode": 0o100644,
                     "c": rng.randrange(1000)}]}]})
        elif e["k"] == "dir":
            out.append({"n": e["n"], "k": "link",
                        "t": rng.choice(["../outside-rel", "ABS:outside",
                                         ".git", "ABS:wt/.git/hooks"])})
        else:
            out.append({"n": e["n"], "k": rng.choice(["link", "dir"]),
                        "t": rng.choice(["ABS:outside", ".git/hooks",
                                         "../outside-rel"]),
                        "e": [{"n": b"inner".hex(), "k": "file",
                               "mode": 0o100644, "c": rng.randrange(1000)}]})
    if rng.random() < 0.5:
        out.extend(e for e in gen_tree(rng, 1, 0.0)
                   if e["n"] not in {x["n"] for x in out})
    grng = random.Random(rng.random())
    if grng.random() < 0.25:
        # submodule entries at names that are, or were, symlinks or
        # directories (the link may still lie on disk from a refused or
        # partial earlier checkout)
        cands = [e for e in ents if e["k"] in ("link", "dir") and
                 b"/" not in bytes.fromhex(e["n"])]
        for e in grng.sample(cands, min(len(cands), 2)):
            out[:] = [x for x in out if x["n"] != e["n"]]
            out.append({"n": e["n"], "k": "gitlink"})
    for e in ents:
        name = bytes.fromhex(e["n"])
        if e["k"] == "link" and len(name) >= 2 and b"/" not in name and \
                rng.random() < 0.3:
            # the link itself leaves the tree (it may stay on disk when the
            # next tree is laid over the old one); entries below its name and
            # a populated directory named by a prefix of it arrive
            out[:] = [x for x in out if x["n"] != e["n"]]
            have = {x["n"] for x in out}
            pre = name[:-1]
            if pre.hex() not in have and pre not in (b".", b".."):
                out.append({"n": pre.hex(), "k": "dir", "e": [
                    {"n": b"x".hex(), "k": "file", "mode": 0o100644,
                     "c": rng.randrange(1000)},
                    {"n": b"z".hex(), "k": "file", "mode": 0o100644,
                     "c": rng.randrange(1000)}]})
            out.append({"n": e["n"], "k": "dir", "e": [
                {"n": b"y".hex(), "k": "file", "mode": 0o100644,
                 "c": rng.randrange(1000)}]})
    return out or gen_tree(rng, 1, 0.0)


def gen_plan(seed, tier):
    rng = random.Random(derive_seed(seed, "c17plan"))
    # half of the plans use only valid names: the attack is then in what the
    # symlinks point at and in names changing kind between trees
    p_unsafe = rng.choice([0.0, 0.0, 0.15, 0.4])
    t1 = gen_tree(rng, 0, p_unsafe)
    trees = [t1]
    for _ in range(rng.choice([0, 1, 1, 2])):
        trees.append(mutate_tree(rng, trees[-1]))
    first = rng.choice(["clone", "clone", "build_index", "checkout_branch",
                        "stash_pop", "apply_patch", "restore"])
    ops = [first]
    for _ in trees[1:]:
        ops.append(rng.choice(["checkout_branch", "checkout_force",
                               "reset_hard", "update_working_tree",
                               "reset_mixed_hard", "stash_pop", "apply_patch",
                               "am", "switch", "restore", "build_index",
                               "apply_copy", "sparse",
                               "reset_index", "reset_mixed_hard_prev",
                               "reset_mixed_hard_prev", "checkout_paths"]))
    if rng.random() < 0.15:
        # the same tree again by another route: the index already lists it
        trees.append(trees[-1])
        ops.append(rng.choice(["reset_mixed_hard", "reset_hard"]))
    faults = []
    if len(trees) > 1 and rng.random() < 0.3:
        faults.append({"actor": "main", "nth": rng.randrange(5, 60),
                       "kind": rng.choice(["EIO", "ENOSPC", "EPERM"])})
    return {"kind": "checkout", "seed": seed, "trees": trees, "ops": ops,
            "protect_ntfs": rng.choice([None, True, False]),
            "protect_hfs": rng.choice([None, True, False]),
            "faults": faults,
            "symlinks_cfg": rng.choice([None, None, True])}


# ----------------------------------------------------------------- build
def raw_tree(store, ents, ctx):
    """Write a tree object from raw bytes (names are not validated by any
    dulwich builder this way). -> hex id."""
    from dulwich.objects import Blob, ShaFile
    items = []
    for e in ents:
        name = bytes.fromhex(e["n"])
        if b"\0" in name:
            continue
        if e["k"] == "file":
            b = Blob.from_string(b"PAYLOAD-%d-" % e["c"] + ctx["marker"] +
                                 b"\n")
            store.add_object(b)
            items.append((name, e["mode"], b.id))
        elif e["k"] == "link":
            t = e["t"]
            if t.startswith("ABS:"):
                t = os.path.join(ctx["root"], *DEPTH, t[4:]) if \
                    t[4:].startswith("wt") else os.path.join(ctx["root"],
                                                             t[4:])
            b = Blob.from_string(os.fsencode(t))
            store.add_object(b)
            items.append((name, 0o120000, b.id))
        elif e["k"] == "gitlink":
            # a submodule entry: checkout makes a directory with a .git
            # placeholder at this path
            items.append((name, 0o160000,
                          hashlib.sha1(b"sub" + name).hexdigest().encode()))
        else:
            items.append((name, 0o040000, raw_tree(store, e["e"], ctx)))

    def key(it):
        return it[0] + (b"/" if it[1] == 0o040000 else b"")
    raw = b"".join(b"%o %s\0" % (mode, name) + bytes.fromhex(sha.decode())
                   for name, mode, sha in sorted(items, key=key))
    t = ShaFile.from_raw_string(2, raw)
    store.add_object(t)
    return t.id


def has_unsafe(ents):
    for e in ents:
        if bytes.fromhex(e["n"]) in UNSAFE_NAMES or e["k"] == "link":
            return True
        if e["k"] == "dir" and has_unsafe(e["e"]):
            return True
    return False


def flat_entries(ents, prefix=b""):
    """[(path, kind, spec)] of every file/link entry, paths joined by '/'."""
    out = []
    for e in ents:
        name = bytes.fromhex(e["n"])
        if b"\0" in name:
            continue
        path = prefix + name
        if e["k"] == "dir":
            out.extend(flat_entries(e["e"], path + b"/"))
        else:
            out.append((path, e["k"], e))
    return out


def quote_path(p):
    """git's C-style quoting of a path in a diff header."""
    if all(0x20 < b < 0x7f and b not in b'"\\' for b in p):
        return p
    out = b'"'
    for b in p:
        if b in b'"\\':
            out += b"\\" + bytes([b])
        elif 0x20 <= b < 0x7f:
            out += bytes([b])
        else:
            out += b"\\%03o" % b
    return out + b'"'


def make_patch(ents, ctx, existing=()):
    """A unified diff that creates every file/link entry of the tree (and
    modifies the ones in ``existing``)."""
    out = []
    for path, kind, e in flat_entries(ents):
        if kind == "gitlink":
            continue  # a patch does not carry submodule entries
        if kind == "link":
            t = e["t"]
            if t.startswith("ABS:"):
                t = os.path.join(ctx["root"], *DEPTH, t[4:]) if \
                    t[4:].startswith("wt") else os.path.join(ctx["root"],
                                                             t[4:])
            body = os.fsencode(t)
            mode = b"120000"
            lines = [body]
            nonl = True
        else:
            body = b"PAYLOAD-%d-" % e["c"] + ctx["marker"]
            mode = b"%o" % (e["mode"] & 0o177777)
            lines = [body]
            nonl = False
        a, b = quote_path(b"a/" + path), quote_path(b"b/" + path)
        out.append(b"diff --git " + a + b" " + b + b"\n")
        out.append(b"new file mode " + mode + b"\n")
        out.append(b"--- /dev/null\n+++ " + b + b"\n")
        out.append(b"@@ -0,0 +1 @@\n")
        for ln in lines:
            out.append(b"+" + ln + b"\n")
        if nonl:
            out.append(b"\\ No newline at end of file\n")
    return b"".join(out)


def make_mbox(patch):
    return (b"From 0000000000000000000000000000000000000000 Mon Sep 17 "
            b"00:00:00 2001\nFrom: A U Thor <author@example.com>\n"
            b"Date: Thu, 1 Jan 2026 00:00:00 +0000\n"
            b"Subject: [PATCH] adversarial\n\nbody\n---\n" + patch +
            b"-- \n2.0\n\n")


GIT_ALLOWED = ("index", "HEAD", "ORIG_HEAD", "packed-refs", "shallow",
               "MERGE_HEAD", "index.lock")
# rebase-apply/ is where am keeps the mailbox it is applying (as git does)
GIT_ALLOWED_DIRS = ("refs/", "logs/", "objects/", "rebase-apply/")


def _config_items(gitdir):
    """The repository configuration without the sparse-checkout switches."""
    from dulwich.config import ConfigFile
    try:
        cf = ConfigFile.from_path(os.path.join(gitdir, "config"))
    except Exception as e:  # noqa: BLE001
        return ("unreadable", type(e).__name__)
    out = []
    for sect in cf.sections():
        for k, v in cf.items(sect):
            if sect == (b"core",) and k.lower().startswith(b"sparsecheckout"):
                continue
            out.append((sect, k, v))
    return sorted(out)


def git_snapshot(gitdir):
    snap = {}
    for dp, dns, fns in simfs.real_walk(gitdir):
        rel = os.path.relpath(dp, gitdir)
        rel = "" if rel == "." else rel + "/"
        for n in fns:
            p = rel + n
            if p in GIT_ALLOWED or p.startswith(GIT_ALLOWED_DIRS):
                continue
            full = os.path.join(dp, n)
            st = R.lstat(full)
            if _stat.S_ISLNK(st.st_mode):
                snap[p] = ("link", R.readlink(full))
            else:
                snap[p] = hashlib.sha1(util.read_real(full) or b"").hexdigest()
        for n in dns:
            p = rel + n + "/"
            if p.startswith(GIT_ALLOWED_DIRS):
                continue
            full = os.path.join(dp, n)
            if R.islink(full):
                snap[p] = ("link", R.readlink(full))
            else:
                snap[p] = "dir"
    return snap


def run_plan(plan):
    from dulwich import porcelain
    from dulwich.index import build_index_from_tree
    from dulwich.repo import Repo
    sim = Sim(seed=plan["seed"], sched={"policy": "sequential"},
              faults=plan.get("faults"),
              clock={"step_lo_ns": 1000, "step_hi_ns": 1000})
    viols = []
    stats = {}

    def viol(sig, detail):
        viols.append({"sig": "C17/" + sig, "detail": str(detail)[:700]})

    with util.Sandbox() as root:
        fs = simfs.FS(root, sim, {"shuffle_listdir": True, "jail": True})
        fs.escape_hook = lambda call, path: viol(
            f"write-outside-sandbox/{call}",
            f"{call} on {path!r}: outside the simulated disk (refused by the "
            f"simulator with EACCES)")
        simfs.activate(fs)
        deep = os.path.join(root, *DEPTH)
        R.makedirs(deep)
        wt = os.path.join(deep, "wt")
        outside = os.path.join(root, "outside")
        R.makedirs(outside)
        R.makedirs(os.path.join(deep, "outside-rel"))
        canaries = {}
        for p in (os.path.join(outside, "canary"),
                  os.path.join(deep, "outside-rel", "canary"),
                  os.path.join(deep, "sibling-canary"),
                  os.path.join(root, "top-canary")):
            with open(p, "wb") as f:
                f.write(b"canary")
            canaries[p] = b"canary"
        marker = b"EVILMARK%d" % plan["seed"]
        ctx = {"root": root, "marker": marker}
        # source repository holding one commit per tree
        src = os.path.join(root, "src.git")
        sr = util.init_repo(src, bare=True)
        commits = []
        for i, ents in enumerate(plan["trees"]):
            tid = raw_tree(sr.object_store, ents, ctx)
            c = util.mk_commit(tid, commits[-1:] if commits else [],
                               b"tree %d\n" % i, 1700000000 + i)
            sr.object_store.add_object(c)
            commits.append(c.id)
            sr.refs[b"refs/heads/t%d" % i] = c.id
        sr.refs.set_symbolic_ref(b"HEAD", b"refs/heads/t0")
        sr.close()
        if any(has_unsafe(t) for t in plan["trees"]):
            stats["probe:unsafe_entry_present"] = 1
        for a_, b_ in zip(plan["trees"], plan["trees"][1:]):
            ka = {e["n"]: e["k"] for e in a_}
            if any(ka.get(e["n"]) == "link" and e["k"] == "dir" for e in b_):
                stats["probe:symlink_then_dir"] = 1
        wt_real = R.realpath(wt)
        git_real = os.path.join(wt_real, ".git")
        # the machine's temp directory is part of the simulated disk (am and
        # the patch parser use temporary files); it is neither work tree nor
        # a place tree content may land in
        import tempfile
        tmp_real = os.path.join(R.realpath(root), "tmp")
        R.makedirs(tmp_real, exist_ok=True)
        old_tempdir = tempfile.tempdir
        tempfile.tempdir = tmp_real
        state = {"git_snap": None, "in_clone": False}

        # ------------------------------------------------ the monitor
        def resolved(rel, call="unlink"):
            return fs.resolve_target(call, rel)

        def inside(p, base):
            return p == base or p.startswith(base + "/")

        def monitor(sim_, actor, call, rel):
            if rel is None:
                return
            if call in ("kwrite", "write", "flush", "close_w", "fsync",
                        "ftruncate"):
                return  # the target was judged when it was opened
            tgt = resolved(rel, call)
            if inside(tgt, R.realpath(src)):
                viol(f"write-into-source-repository/{call}", rel)
                return
            if inside(tgt, tmp_real):
                return
            if not inside(tgt, wt_real):
                viol(f"write-outside-worktree/{call}",
                     f"{call} {rel!r} resolves to {tgt!r}, outside "
                     f"{wt_real!r}")
                sim_.stat("escaped")
        sim.pre_listeners.append(monitor)

        def post(sim_, actor, call, rel, info):
            # rename/symlink second operand
            if call in ("rename", "replace") and info and info[0] is not None:
                tgt = resolved(info[0])
                if not inside(tgt, wt_real) and not inside(
                        tgt, R.realpath(src)) and not inside(tgt, tmp_real):
                    viol(f"write-outside-worktree/{call}-destination",
                         f"{rel!r} -> {info[0]!r} resolves to {tgt!r}")
            if call == "symlink":
                stats["probe:symlink_materialised"] = 1
        sim.listeners.append(post)

        def configure(r):
            c = r.get_config()
            if plan["protect_ntfs"] is not None:
                c.set((b"core",), b"protectNTFS",
                      b"true" if plan["protect_ntfs"] else b"false")
            if plan["protect_hfs"] is not None:
                c.set((b"core",), b"protectHFS",
                      b"true" if plan["protect_hfs"] else b"false")
            if plan["symlinks_cfg"]:
                c.set((b"core",), b"symlinks", b"true")
            c.write_to_path()

        def check_git(label):
            snap = git_snapshot(git_real)
            base = state["git_snap"]
            if base is not None:
                for p in sorted(set(snap) | set(base)):
                    if snap.get(p) != base.get(p):
                        if p == "config" and state["in_clone"]:
                            continue
                        viol("write-inside-dotgit",
                             f"after {label}: .git/{p} "
                             f"{'changed' if p in base and p in snap else 'created' if p in snap else 'removed'}")
                        break
            # tree payload must never appear inside .git outside objects/
            for dp, dns, fns in simfs.real_walk(git_real):
                if "/objects" in dp or dp.endswith("objects"):
                    dns[:] = []
                    continue
                if dp == os.path.join(git_real, "rebase-apply"):
                    dns[:] = []
                    continue
                for n in fns:
                    data = util.read_real(os.path.join(dp, n)) or b""
                    if marker in data:
                        viol("tree-content-inside-dotgit",
                             f"after {label}: "
                             f"{os.path.relpath(os.path.join(dp, n), git_real)} "
                             f"holds blob payload")
            state["git_snap"] = snap

        def body(a):
            repo = None
            for i, op in enumerate(plan["ops"]):
                label = f"{op}[tree {i}]"
                try:
                    if op == "clone":
                        state["in_clone"] = True
                        R.makedirs(wt, exist_ok=True)
                        if i == 0 and not R.listdir(wt):
                            R.rmdir(wt)
                        try:
                            porcelain.clone(src, wt, checkout=True,
                                            errstream=io.BytesIO(),
                                            outstream=io.BytesIO())
                        finally:
                            state["in_clone"] = False
                            if R.lexists(os.path.join(wt, ".git")):
                                r0 = Repo(wt)
                                try:
                                    for j, cc in enumerate(commits):
                                        r0.refs[b"refs/heads/t%d" % j] = cc
                                finally:
                                    r0.close()
                    else:
                        if not R.lexists(os.path.join(wt, ".git")):
                            # a bare-bones repository sharing the objects
                            r0 = util.init_repo(wt)
                            r0.close()
                            with open(os.path.join(
                                    wt, ".git", "objects", "info",
                                    "alternates"), "wb") as f:
                                f.write(os.fsencode(os.path.join(
                                    src, "objects")) + b"\n")
                            r0 = Repo(wt)
                            for j, c in enumerate(commits):
                                r0.refs[b"refs/heads/t%d" % j] = c
                            configure(r0)
                            r0.close()
                            state["git_snap"] = git_snapshot(git_real)
                        r = Repo(wt)
                        try:
                            configure(r)
                            state["git_snap"] = git_snapshot(git_real)
                            tree_id = r[commits[i]].tree
                            if op == "build_index":
                                build_index_from_tree(
                                    r.path, r.index_path(), r.object_store,
                                    tree_id)
                            elif op == "checkout_branch":
                                porcelain.checkout(r, b"t%d" % i)
                            elif op == "checkout_force":
                                porcelain.checkout(r, b"t%d" % i, force=True)
                            elif op == "reset_hard":
                                porcelain.reset(r, "hard", commits[i])
                            elif op == "reset_index":
                                # (what clone uses, on top of what is there)
                                r.get_worktree().reset_index(tree_id)
                            elif op == "checkout_paths":
                                paths = [pth for pth, _k, _e in
                                         flat_entries(plan["trees"][i])]
                                for pth in paths:
                                    try:
                                        porcelain.checkout(
                                            r, commits[i], paths=[pth])
                                    except Exception as e:  # noqa: BLE001
                                        if is_injected(e):
                                            raise
                                        stats["probe:checkout_refused"] = 1
                            elif op == "reset_mixed_hard_prev":
                                # the index is moved to this tree without
                                # touching the files, then everything goes
                                # back to the previous tree: what the index
                                # lists is removed from a work tree that
                                # never had it
                                porcelain.reset(r, "mixed", commits[i])
                                porcelain.reset(r, "hard",
                                                commits[max(0, i - 1)])
                            elif op == "reset_mixed_hard":
                                # index filled from the tree first (no files
                                # written), then materialised
                                porcelain.reset(r, "mixed", commits[i])
                                porcelain.reset(r, "hard", commits[i])
                            elif op == "switch":
                                porcelain.switch(r, b"t%d" % i,
                                                 force=bool(i % 2))
                            elif op == "restore":
                                paths = [pth for pth, _k, _e in
                                         flat_entries(plan["trees"][i])]
                                for pth in paths:
                                    try:
                                        porcelain.restore(r, [pth],
                                                          source=commits[i])
                                    except Exception as e:  # noqa: BLE001
                                        if is_injected(e):
                                            raise
                                        stats["probe:checkout_refused"] = 1
                            elif op == "apply_patch":
                                porcelain.apply_patch(
                                    r, patch_file=io.BytesIO(make_patch(
                                        plan["trees"][i], ctx)))
                            elif op == "sparse":
                                # the index is moved to the tree, then a
                                # sparse checkout materialises (or, with a
                                # pattern matching nothing, removes) it
                                porcelain.reset(r, "mixed", commits[i])
                                pats = [["*"], ["/*", "/.git/"],
                                        ["/no-such-name"]][
                                    plan["seed"] % 3]
                                cfg0 = _config_items(git_real)
                                try:
                                    porcelain.sparse_checkout(
                                        r, patterns=pats, force=True,
                                        cone=False)
                                    if plan["seed"] % 3 == 2:
                                        porcelain.sparse_checkout(
                                            r, patterns=["*"], force=True,
                                            cone=False)
                                finally:
                                    # the command's own two records: the
                                    # pattern file and core.sparseCheckout*
                                    base = state["git_snap"]
                                    now = git_snapshot(git_real)
                                    sp = util.read_real(os.path.join(
                                        git_real, "info",
                                        "sparse-checkout")) or b""
                                    if set(sp.decode().split()) <= {
                                            "*", "/*", "/.git/",
                                            "/no-such-name"}:
                                        if "info/sparse-checkout" in now:
                                            base["info/sparse-checkout"] = \
                                                now["info/sparse-checkout"]
                                    if _config_items(git_real) == cfg0 and \
                                            "config" in now:
                                        base["config"] = now["config"]
                                    stats["probe:sparse_checkout_run"] = 1
                            elif op == "apply_copy":
                                # hunk-less copy / rename patches: the
                                # source is an ordinary file, every path of
                                # the tree (whatever is there now) a target
                                srcn = b"cpsrc%d" % i
                                porcelain.apply_patch(
                                    r, patch_file=io.BytesIO(
                                        b"diff --git a/" + srcn + b" b/" +
                                        srcn + b"\nnew file mode 100755\n"
                                        b"--- /dev/null\n+++ b/" + srcn +
                                        b"\n@@ -0,0 +1 @@\n+PAYLOAD-0-" +
                                        ctx["marker"] + b"\n"))
                                paths = [pth for pth, _k, _e in
                                         flat_entries(plan["trees"][i])]
                                for j, pth in enumerate(paths):
                                    verb = b"rename" if j == len(paths) - 1 \
                                        else b"copy"
                                    pt = (b"diff --git " +
                                          quote_path(b"a/" + srcn) + b" " +
                                          quote_path(b"b/" + pth) +
                                          b"\nsimilarity index 100%\n" +
                                          verb + b" from " +
                                          quote_path(srcn) + b"\n" +
                                          verb + b" to " + quote_path(pth) +
                                          b"\n")
                                    try:
                                        porcelain.apply_patch(
                                            r, patch_file=io.BytesIO(pt))
                                        stats["probe:copy_patch_applied"] = 1
                                    except Exception as e:  # noqa: BLE001
                                        if is_injected(e):
                                            raise
                                        stats["probe:checkout_refused"] = 1
                                # ... and rename patches whose *source*
                                # (which a rename deletes) lies inside .git,
                                # named directly, behind a strip prefix, or
                                # through a symlink the tree brought along
                                srcs = [b".git/description",
                                        b".git/info/exclude",
                                        b".git/HEAD", b".git/config"]
                                for pth, kind_, _e in flat_entries(
                                        plan["trees"][i]):
                                    if kind_ == "link":
                                        srcs.append(pth + b"/description")
                                        srcs.append(pth + b"/config")
                                for j, sp in enumerate(srcs[:10]):
                                    dst = b"stolen%d-%d" % (i, j)
                                    hunk = b"" if j % 2 == 0 else (
                                        b"--- " + quote_path(b"a/" + sp) +
                                        b"\n+++ " + quote_path(b"b/" + dst) +
                                        b"\n@@ -1 +1 @@\n-x\n+y\n")
                                    pt = (b"diff --git " +
                                          quote_path(b"a/" + sp) + b" " +
                                          quote_path(b"b/" + dst) +
                                          b"\nsimilarity index 90%\n"
                                          b"rename from " +
                                          quote_path(b"a/" + sp) +
                                          b"\nrename to " +
                                          quote_path(b"b/" + dst) +
                                          b"\n" + hunk)
                                    try:
                                        porcelain.apply_patch(
                                            r, patch_file=io.BytesIO(pt))
                                    except Exception as e:  # noqa: BLE001
                                        if is_injected(e):
                                            raise
                                        stats["probe:rename_from_dotgit_"
                                              "refused"] = 1
                            elif op == "am":
                                porcelain.am(
                                    r, patches=io.BytesIO(make_mbox(make_patch(
                                        plan["trees"][i], ctx))),
                                    committer=b"C <c@example.com>",
                                    commit_timestamp=1700000000,
                                    commit_timezone=0)
                            elif op == "stash_pop":
                                # a stash whose work-tree side is the tree
                                try:
                                    head = r.refs[b"HEAD"]
                                except KeyError:
                                    head = commits[max(0, i - 1)]
                                    r.refs[b"HEAD"] = head
                                ic = util.mk_commit(
                                    r[head].tree, [head], b"index on x\n",
                                    1700001000 + i)
                                wc = util.mk_commit(
                                    tree_id, [head, ic.id], b"WIP on x\n",
                                    1700001001 + i)
                                r.object_store.add_object(ic)
                                r.object_store.add_object(wc)
                                r.refs[b"refs/stash"] = wc.id
                                lp = os.path.join(git_real, "logs", "refs")
                                R.makedirs(lp, exist_ok=True)
                                with R.open(os.path.join(lp, "stash"),
                                            "wb") as f:
                                    f.write(b"0" * 40 + b" " + wc.id +
                                            b" S <s@example.com> 1700001001 "
                                            b"+0000\tWIP on x\n")
                                state["git_snap"] = git_snapshot(git_real)
                                porcelain.stash_pop(r)
                            elif op == "update_working_tree":
                                from dulwich.diff_tree import tree_changes
                                from dulwich.index import update_working_tree
                                old = None
                                try:
                                    old = r[r.head()].tree
                                except KeyError:
                                    pass
                                ch = tree_changes(r.object_store, old, tree_id)
                                update_working_tree(
                                    r, old, tree_id, change_iterator=ch,
                                    allow_overwrite_modified=True)
                                r.refs[b"HEAD"] = commits[i]
                        finally:
                            r.close()
                except BaseException as e:  # noqa: BLE001
                    state["in_clone"] = False
                    if is_injected(e):
                        stats["probe:interrupted_checkout"] = 1
                    else:
                        stats["probe:checkout_refused"] = 1
                        stats["refused:" + type(e).__name__] = stats.get(
                            "refused:" + type(e).__name__, 0) + 1
                    if isinstance(e, (MemoryError, RecursionError,
                                      SystemError)):
                        viol(f"abnormal-exception/{op}/{type(e).__name__}",
                             repr(e))
                if R.lexists(git_real):
                    if state["git_snap"] is None:
                        state["git_snap"] = git_snapshot(git_real)
                    else:
                        check_git(label)
                    if op == "clone":
                        state["git_snap"] = git_snapshot(git_real)
        try:
            act = sim.run_inline("main", body)
        finally:
            tempfile.tempdir = old_tempdir
        gc.collect()
        simfs.deactivate()
        # payload must not be left in the temp directory's place either
        for dp, dns, fns in simfs.real_walk(tmp_real):
            for n in fns:
                data = util.read_real(os.path.join(dp, n)) or b""
                if marker in data:
                    stats["probe:payload_in_tempfile"] = 1
        if act.exc is not None:
            viol(f"harness-exception/{type(act.exc).__name__}", repr(act.exc))
        # canaries and strays
        for p, want in canaries.items():
            got = util.read_real(p)
            if got != want:
                viol("canary-changed", f"{os.path.relpath(p, root)}: "
                     f"{got!r:.60}")
        for d in (outside, os.path.join(deep, "outside-rel"), deep, root):
            for n in R.listdir(d):
                full = os.path.join(d, n)
                if full in canaries or n in ("wt", "src.git", "outside",
                                             "outside-rel", "l1", "l2", "l3",
                                             "l4", "l5", "tmp"):
                    continue
                viol("stray-file-outside-worktree",
                     f"{os.path.relpath(full, root)} appeared")
        base = util.scratch_base()
        for n in R.listdir(base):
            if n not in ("run", "tmpl", "sw"):
                viol("stray-file-outside-sandbox", n)
        # mode bits of what was checked out
        if R.lexists(wt):
            for dp, dns, fns in simfs.real_walk(wt):
                if ".git" in dns and dp == wt:
                    dns.remove(".git")
                for n in fns:
                    st = R.lstat(os.path.join(dp, n))
                    if _stat.S_ISREG(st.st_mode):
                        m = _stat.S_IMODE(st.st_mode)
                        if m & 0o7000 or m & 0o022:
                            viol("unsafe-mode-bits",
                                 f"{os.path.relpath(os.path.join(dp, n), wt)!r}"
                                 f" has mode {m:o}")
            # entries every configuration must refuse
            for bad in (os.path.join(wt, ".git", "hooks", "pwn"),):
                if R.lexists(bad):
                    viol("write-inside-dotgit", f"{bad} exists")
    seen = set()
    out = []
    for v in viols:
        if v["sig"] not in seen:
            seen.add(v["sig"])
            out.append(v)
    stats["sim_ns"] = sim.clock.advanced
    stats["policy:sequential"] = 1
    for f in sim.fired:
        stats["fault:" + f[2] + "@" + f[3]] = 1
    for op in plan["ops"]:
        stats["op:" + op] = stats.get("op:" + op, 0) + 1
    ih = util.h8([plan["trees"], plan["ops"], plan["protect_ntfs"],
                  plan["protect_hfs"], plan["faults"]])
    return {"violations": out, "digest": util.h8([sim.digest(),
                                                 [v["sig"] for v in out]]),
            "ihash": ih,
            "nontrivial": bool(stats.get("probe:unsafe_entry_present")),
            "trace": None, "stats": stats, "events": sim.events,
            "sample": {"plan": plan}}


def shrink(plan):
    def cp():
        return json.loads(json.dumps(plan))
    if len(plan["trees"]) > 1:
        p = cp()
        p["trees"].pop()
        p["ops"].pop()
        yield p
    if plan["faults"]:
        p = cp()
        p["faults"] = []
        yield p
    for ti, t in enumerate(plan["trees"]):
        for ei in range(len(t)):
            if len(t) > 1:
                p = cp()
                del p["trees"][ti][ei]
                yield p
        for ei, e in enumerate(t):
            if e["k"] == "dir" and len(e["e"]) > 1:
                for si in range(len(e["e"])):
                    p = cp()
                    del p["trees"][ti][ei]["e"][si]
                    yield p
    for k in ("protect_ntfs", "protect_hfs", "symlinks_cfg"):
        if plan[k] is not None:
            p = cp()
            p[k] = None
            yield p
