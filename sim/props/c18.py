"""C18 -- work tree round trip: checkout then stage reproduces the tree; status
is exact.

status decides "unchanged" from lstat timestamps and sizes, so whether it is
right depends on the clock: timestamp granularity, the order of index write
and edit inside one granule, skew.  The simulator owns time.time() and every
file timestamp; a three-state model (HEAD tree, index, directory) computes by
content what status must report after every edit.
"""

from __future__ import annotations

import gc
import hashlib
import io
import json
import os
import random
import stat as _stat

from .. import simfs, util
from ..kernel import Sim, derive_seed
from ..simfs import R

PROP_ID = "C18"
LEVEL = "exploration"
RULE = ("seeded plans: a generated tree (regular files of any bytes incl. "
        "empty and larger than a buffer, executables, symlinks, nested "
        "directories, non-UTF-8 and quote-needing names) is checked out, "
        "staged again (tree id must round-trip), then 4-14 edits from {modify "
        "same size, modify other size, chmod +-x, delete, add untracked, "
        "file<->symlink<->directory, stage, unstage, rm --cached, commit, "
        "switch to a second tree} with a status call after each, under clock "
        "configurations normal / skewed / racy and timestamp granularities "
        "1ns..2s. Distinct by hash of tree + edit list + clock; non-trivial "
        "when at least one edit changed what status must report.")
ASSUMPTIONS = [
    "autocrlf and filters off; core.filemode true; case-sensitive file system",
    "'normal' clock: the virtual clock advances by at least one timestamp "
    "granule between any two mutations; 'racy': zero advance between an "
    "index write and a following same-size edit (git handles this case by "
    "re-hashing racily clean entries)",
    "git status itself is not consulted (C git is outside the simulator); the "
    "content model is the oracle",
]
COMPONENTS = {
    "real": ["dulwich.porcelain status/add/commit/checkout/reset/remove",
             "dulwich.index (index_entry_from_stat, _stat_matches_entry, "
             "get_unstaged_changes, changes_from_tree, commit)",
             "dulwich.worktree stage/unstage", "tmpfs"],
    "stub": ["clock (time.time and every file timestamp, granularity knob)",
             "stat metadata (virtual inode numbers)"],
}
PROBES = {"same_size_edit": 1, "racy_same_granule_edit": 1,
          "status_reported_change": 1, "roundtrip_checked": 1,
          "kind_replacement": 1, "untracked_dir_collapsed": 1,
          "untracked_dir_with_empty_subdirs": 1,
          "directory_became_file": 1, "type_change_same_bytes": 1,
          "reset_hard": 1, "add_all": 1, "reset_mixed": 1,
          "staged_new_became_directory": 1,
          "directory_became_symlink": 1,
          "head_bytes_put_back_by_hand": 1,
          "reset_hard_onto_matching_file": 1,
          "file_rewritten_during_add": 1}
MIN_BUDGET = 200

NAMES = [b"a.txt", b"b", b"dir/c.txt", b"dir/sub/d", b"x y.txt",
         b"caf\xc3\xa9.txt", b"bad\xff\xfename", b"quo\"te", b"tab\there",
         b"exec.sh", b"empty", b"big.bin", b"dir2/e", b"ln",
         # the same name as a file in one tree and a directory in the other
         b"dir", b"dir2", b"b/x", b"ln/under", b"dir/sub"]


FAULT_COUNTERS = {
    "clock:racy": "clock/zero advance between index write and edit",
    "clock:skewed": "clock/skew and backward jumps",
    "gran:coarse": "clock/coarse timestamp granularity (>= 1 s)",
}


def budget(tier):
    return 4000 if tier == "quick" else 250000


def content(n, seed=0):
    r = random.Random(n * 1000003 + seed)
    kind = n % 5
    if kind == 0:
        return b""
    if kind == 1:
        return bytes(r.randrange(256) for _ in range(r.randint(1, 40)))
    if kind == 2:
        return (b"line %d\n" % n) * r.randint(1, 30)
    if kind == 3:
        return bytes(r.randrange(256) for _ in range(70)) * r.randint(150, 400)
    return b"x" * r.randint(1, 10) + b"\r\n" + b"\0tail"


def gen_tree(rng):
    t = {}
    for nm in rng.sample(NAMES, rng.randint(2, 7)):
        if any(nm.startswith(bytes.fromhex(o) + b"/") or
               bytes.fromhex(o).startswith(nm + b"/") for o in t):
            continue
        r = rng.random()
        if r < 0.15:
            t[nm.hex()] = {"k": "link", "t": rng.choice(
                ["a.txt", "dir", "../nowhere", "dangling", "dir/c.txt"])}
        else:
            t[nm.hex()] = {"k": "file", "c": rng.randrange(10**6),
                           "x": rng.random() < 0.2}
    return t


def gen_plan(seed, tier):
    rng = random.Random(derive_seed(seed, "c18plan"))
    tree = gen_tree(rng)
    tree2 = gen_tree(rng)
    edits = []
    for _ in range(rng.randint(4, 14)):
        edits.append({"op": rng.choice(
            ["mod_same", "mod_same", "mod_diff", "chmod", "delete",
             "untracked", "to_link", "to_file", "to_dir", "stage", "stage",
             "unstage", "rm_cached", "commit", "switch", "switch", "touch",
             "rewrite_same", "dir_to_file", "to_link_same", "to_file_same",
             "reset_hard", "reset_hard", "add_all", "reset_mixed",
             "dir_to_link", "new_staged_dir_reset", "untracked_mixed_dir",
             "revert_to_head", "stage_revert_reset", "edit_during_stage"]),
            "i": rng.randrange(100), "c": rng.randrange(10**6)})
    mode = rng.choice(["normal", "normal", "skewed", "racy", "racy"])
    gran = rng.choice([1, 1000, 4 * 10**6, 10**9, 2 * 10**9])
    return {"kind": "status", "seed": seed, "tree": tree, "tree2": tree2,
            "edits": edits, "clock_mode": mode, "gran_ns": gran,
            "checkout_via": rng.choice(["reset_hard", "clone", "checkout"]),
            "untracked_mode": "all"}


# ------------------------------------------------------------------ model
SIZES = {}
CONTENT = {}


def blob_sha(data):
    h = hashlib.sha1(b"blob %d\0" % len(data) + data).hexdigest().encode()
    SIZES[h] = len(data)
    if len(data) < 4096:
        CONTENT[h] = data
    return h


class Model:
    def __init__(self):
        self.head = {}  # path -> (mode, sha)
        self.index = {}
        self.wd = {}  # path -> ("file", bytes, exec) | ("link", target bytes)

    def wd_entry(self, p):
        v = self.wd.get(p)
        if v is None:
            return None
        if v[0] == "file":
            return (0o100755 if v[2] else 0o100644, blob_sha(v[1]))
        return (0o120000, blob_sha(v[1]))

    def expected(self):
        staged = {"add": set(), "delete": set(), "modify": set()}
        for p in self.index:
            if p not in self.head:
                staged["add"].add(p)
            elif self.index[p] != self.head[p]:
                staged["modify"].add(p)
        for p in self.head:
            if p not in self.index:
                staged["delete"].add(p)
        unstaged = set()
        for p, ent in self.index.items():
            cur = self.wd_entry(p)
            if cur is None:
                # a directory now sits where the file was, or it is gone
                unstaged.add(p)
            elif cur != ent:
                unstaged.add(p)
        untracked = {p for p in self.wd if p not in self.index}
        return staged, unstaged, untracked

    def tree_id_of_index(self, store_add):
        """Tree id a full commit of the index must produce (own builder)."""
        top = {}
        for p, (mode, sha) in self.index.items():
            parts = p.split(b"/")
            d = top
            for part in parts[:-1]:
                d = d.setdefault(part, {})
            d[parts[-1]] = (mode, sha)

        def build(d):
            items = []
            for name, v in d.items():
                if isinstance(v, dict):
                    items.append((name, 0o040000, build(v)))
                else:
                    items.append((name, v[0], v[1]))

            def key(it):
                return it[0] + (b"/" if it[1] == 0o040000 else b"")
            raw = b"".join(b"%o %s\0" % (m, n) + bytes.fromhex(s.decode())
                           for n, m, s in sorted(items, key=key))
            return hashlib.sha1(b"tree %d\0" % len(raw) + raw).hexdigest() \
                .encode()
        return build(top)


def run_plan(plan):
    from dulwich import porcelain
    from dulwich.objects import Blob
    from dulwich.repo import Repo
    gran = plan["gran_ns"]
    racy = plan["clock_mode"] == "racy"
    sim = Sim(seed=plan["seed"], sched={"policy": "sequential"},
              clock={"step_lo_ns": 0, "step_hi_ns": 0, "gran_ns": gran})
    viols = []
    stats = {}
    crng = random.Random(derive_seed(plan["seed"], "c18clock"))

    def viol(sig, detail):
        viols.append({"sig": "C18/" + sig, "detail": str(detail)[:900]})

    def tick(kind="mutation"):
        """Advance the virtual clock according to the configuration."""
        mode = plan["clock_mode"]
        if mode == "racy" and kind in ("after_index_write", "mutation"):
            if crng.random() < 0.7:
                return  # same granule
        step = gran + crng.randrange(1, max(2, gran))
        if mode == "skewed" and crng.random() < 0.3:
            step = crng.choice([-3 * gran, 3600 * 10**9, -5 * 10**9,
                                86400 * 10**9])
        sim.clock.advance(step)

    with util.Sandbox() as root:
        fs = simfs.FS(root, sim, {"shuffle_listdir": True})
        simfs.activate(fs)
        wt = os.path.join(root, "wt")
        m = Model()

        def fspath(p):
            return os.path.join(os.fsencode(wt), p)

        def materialise_spec(spec):
            out = {}
            for hx, e in spec.items():
                p = bytes.fromhex(hx)
                if e["k"] == "file":
                    out[p] = ("file", content(e["c"]), e["x"])
                else:
                    out[p] = ("link", e["t"].encode())
            return out

        def commit_spec(r, spec, t, parents):
            """Commit a tree built from a spec (harness-side objects)."""
            files = materialise_spec(spec)
            mm = Model()
            for p, v in files.items():
                b = Blob.from_string(v[1])
                r.object_store.add_object(b)
                mm.wd[p] = v
                mm.index[p] = mm.wd_entry(p)
            # build tree objects through dulwich (C12 trusted), check id
            from dulwich.objects import Tree
            top = {}
            for p, ent in mm.index.items():
                parts = p.split(b"/")
                d = top
                for part in parts[:-1]:
                    d = d.setdefault(part, {})
                d[parts[-1]] = ent

            def build(d):
                tr = Tree()
                for name, v in d.items():
                    if isinstance(v, dict):
                        tr.add(name, 0o040000, build(v))
                    else:
                        tr.add(name, v[0], v[1])
                r.object_store.add_object(tr)
                return tr.id
            tid = build(top)
            assert tid == mm.tree_id_of_index(None)
            c = util.mk_commit(tid, parents, b"c\n", t)
            r.object_store.add_object(c)
            return c.id, tid, files

        def beyond_link(p):
            """Does the model have a symlink where p has a directory?"""
            parts = p.split(b"/")
            return any(m.wd.get(b"/".join(parts[:i]), (None,))[0] == "link"
                       for i in range(1, len(parts)))

        def status_check(label, r):
            exp_staged, exp_unstaged, exp_untracked = m.expected()
            try:
                st = porcelain.status(r, untracked_files="all")
            except Exception as e:  # noqa: BLE001
                viol(f"status-raised/{type(e).__name__}", f"{label}: {e!r}")
                return
            got_staged = {k: {os.fsencode(x) if isinstance(x, str) else x
                              for x in v} for k, v in st.staged.items()}
            got_unstaged = {os.fsencode(x) if isinstance(x, str) else x
                            for x in st.unstaged}
            got_untracked = {os.fsencode(x) if isinstance(x, str) else x
                             for x in st.untracked}
            if exp_unstaged or any(exp_staged.values()) or exp_untracked:
                stats["probe:status_reported_change"] = 1
            cfg = plan["clock_mode"]
            for k in ("add", "delete", "modify"):
                if got_staged.get(k, set()) != exp_staged[k]:
                    diff = got_staged.get(k, set()) ^ exp_staged[k]
                    tagk = "/beyond-symlinked-directory" if diff and all(
                        beyond_link(q) for q in diff) else ""
                    viol(f"staged-wrong/{k}{tagk}",
                         f"{label}: got {sorted(got_staged.get(k, set()))} "
                         f"want {sorted(exp_staged[k])}")
            missed = exp_unstaged - got_unstaged
            phantom = got_unstaged - exp_unstaged
            if missed:
                def reason(p):
                    ent = m.index[p]
                    cur = m.wd_entry(p)
                    if cur is None:
                        return "deleted-or-directory"
                    if (ent[0] == 0o120000) != (cur[0] == 0o120000):
                        return "type-changed"
                    if ent[1] != cur[1]:
                        return "same-size-edit" if SIZES.get(ent[1]) == \
                            SIZES.get(cur[1]) else "size-changed"
                    return "mode-changed"
                why = sorted(reason(p) for p in missed)
                if all(beyond_link(p) for p in missed):
                    # the entry's file is looked up *through* the symlink
                    # that replaced its directory
                    why = ["beyond-symlinked-directory"]
                viol(f"status-missed-change/{cfg}/{why[0]}",
                     f"{label}: unstaged change of {sorted(missed)} not "
                     f"reported (granularity {gran} ns); reported "
                     f"{sorted(got_unstaged)}")
            if phantom:
                viol(f"status-phantom-change/{cfg}",
                     f"{label}: {sorted(phantom)} reported as changed but "
                     f"identical to the index")
            if got_untracked != exp_untracked:
                viol("untracked-wrong",
                     f"{label}: got {sorted(got_untracked)} want "
                     f"{sorted(exp_untracked)}")
            # the default mode: a directory without tracked files is shown
            # once, as 'dir/'
            exp_normal = set()
            for p in exp_untracked:
                parts = p.split(b"/")
                rep = p
                for i in range(1, len(parts)):
                    d = b"/".join(parts[:i]) + b"/"
                    if not any(q.startswith(d) for q in m.index):
                        rep = d
                        break
                exp_normal.add(rep)
            try:
                st2 = porcelain.status(r, untracked_files="normal")
            except Exception as e:  # noqa: BLE001
                viol(f"status-raised/normal/{type(e).__name__}",
                     f"{label}: {e!r}")
                return
            got_normal = {os.fsencode(x) if isinstance(x, str) else x
                          for x in st2.untracked}
            if got_normal != exp_normal:
                viol("untracked-wrong/normal",
                     f"{label}: got {sorted(got_normal)} want "
                     f"{sorted(exp_normal)}; index has {sorted(m.index)[:12]}")
            if exp_normal != exp_untracked:
                stats["probe:untracked_dir_collapsed"] = 1

        def write_file(p, data, exe=None):
            fp = fspath(p)
            R.makedirs(os.path.dirname(fp), exist_ok=True)
            with open(fp, "wb") as f:
                f.write(data)
            if exe is not None:
                os.chmod(fp, 0o755 if exe else 0o644)

        def remove_path(p):
            fp = fspath(p)
            st = R.lstat(fp)
            if _stat.S_ISDIR(st.st_mode):
                import shutil
                shutil.rmtree(fp)
            else:
                os.unlink(fp)
            # drop empty parents
            d = os.path.dirname(fp)
            while d != os.fsencode(wt):
                try:
                    os.rmdir(d)
                except OSError:
                    break
                d = os.path.dirname(d)

        def body(a):
            r = util.init_repo(wt)
            c1, t1, files1 = commit_spec(r, plan["tree"], 1700000000, [])
            c2, t2, files2 = commit_spec(r, plan["tree2"], 1700000100, [c1])
            r.refs[b"refs/heads/main"] = c1
            r.refs[b"refs/heads/other"] = c2
            tick()
            # ---- checkout (from an unborn branch: nothing is checked out yet)
            via = plan["checkout_via"]
            if via == "reset_hard":
                r.refs.set_symbolic_ref(b"HEAD", b"refs/heads/work")
                porcelain.reset(r, "hard", c1)
                r.refs[b"refs/heads/main"] = c1
                r.refs.set_symbolic_ref(b"HEAD", b"refs/heads/main")
            elif via == "checkout":
                r.refs.set_symbolic_ref(b"HEAD", b"refs/heads/work")
                porcelain.checkout(r, b"main")
            else:
                r.refs.set_symbolic_ref(b"HEAD", b"refs/heads/main")
                r.close()
                src = os.path.join(root, "src")
                os.rename(wt, src)
                porcelain.clone(src, wt, checkout=True, branch=b"main",
                                errstream=io.BytesIO(),
                                outstream=io.BytesIO())
                r = Repo(wt)
                r.refs[b"refs/heads/other"] = c2
                # the clone needs the second commit's objects too
            tick("after_index_write")
            m.head = {p: (0o100755 if v[2] else 0o100644, blob_sha(v[1]))
                      if v[0] == "file" else (0o120000, blob_sha(v[1]))
                      for p, v in files1.items()}
            m.index = dict(m.head)
            m.wd = dict(files1)
            m.why = {}
            # ---- content / type / mode right after checkout
            for p, v in files1.items():
                fp = fspath(p)
                try:
                    st = R.lstat(fp)
                except OSError:
                    viol("checkout-content/missing", repr(p))
                    continue
                if v[0] == "link":
                    if not _stat.S_ISLNK(st.st_mode) or \
                            os.fsencode(R.readlink(fp)) != v[1]:
                        viol("checkout-content/symlink", repr(p))
                else:
                    if not _stat.S_ISREG(st.st_mode) or \
                            util.read_real(fp) != v[1]:
                        viol("checkout-content/bytes", repr(p))
                    elif bool(st.st_mode & 0o100) != v[2]:
                        viol("checkout-content/exec-bit", repr(p))
            status_check("after checkout", r)
            # ---- stage everything again: same tree id
            porcelain.add(r, [wt])
            tick("after_index_write")
            tid = r.open_index().commit(r.object_store)
            stats["probe:roundtrip_checked"] = 1
            if tid != t1:
                viol("roundtrip-tree-id",
                     f"staging the fresh checkout gives {tid} instead of {t1}")
            status_check("after add .", r)
            # ---- edits
            stopped = [False]
            for ei, ed in enumerate(plan["edits"]):
                op = ed["op"]
                label = f"edit {ei} {op}"
                tracked = sorted(m.index)
                present = sorted(m.wd)
                pick = lambda lst: lst[ed["i"] % len(lst)] if lst else None  # noqa
                if op in ("mod_same", "mod_diff", "rewrite_same"):
                    files = [p for p in present if m.wd[p][0] == "file"]
                    p = pick(files)
                    if p is None:
                        continue
                    old = m.wd[p][1]
                    if op == "mod_same":
                        if not old:
                            continue
                        new = bytearray(old)
                        k = ed["c"] % len(new)
                        new[k] = (new[k] + 1 + ed["c"] % 200) % 256
                        new = bytes(new)
                        if new == old:
                            new = bytes([old[0] ^ 1]) + old[1:]
                        stats["probe:same_size_edit"] = 1
                        if sim.clock.stamp() == fs.meta_for(
                                R.lstat(fspath(p)))[2]:
                            stats["probe:racy_same_granule_edit"] = 1
                        m.why[p] = "same-size-edit"
                    elif op == "mod_diff":
                        new = old + b"more %d\n" % ed["c"]
                        m.why[p] = "size-changed"
                    else:
                        new = old  # rewritten with identical content
                    # edit in place, like an editor that truncates and writes
                    with open(fspath(p), "r+b") as f:
                        f.seek(0)
                        f.write(new)
                        f.truncate()
                    m.wd[p] = ("file", new, m.wd[p][2])
                elif op in ("revert_to_head", "stage_revert_reset"):
                    # the committed bytes are put back by hand (an editor's
                    # undo): the work tree equals HEAD again while the index
                    # may still hold something else
                    cands = [q for q in sorted(m.head)
                             if m.wd.get(q, ("",))[0] == "file" and
                             m.head[q][0] != 0o120000 and
                             m.head[q][1] in CONTENT]
                    p = pick(cands)
                    if p is None:
                        continue
                    if op == "stage_revert_reset":
                        new = m.wd[p][1] + b"staged then undone %d\n" % ed["c"]
                        with open(fspath(p), "wb") as f:
                            f.write(new)
                        m.wd[p] = ("file", new, m.wd[p][2])
                        tick()
                        try:
                            r.get_worktree().stage([os.fsdecode(p)])
                        except Exception as e:  # noqa: BLE001
                            viol(f"stage-raised/{type(e).__name__}",
                                 f"{label}: {e!r}")
                            break
                        m.index[p] = m.wd_entry(p)
                        tick("after_index_write")
                    headc = CONTENT[m.head[p][1]]
                    with open(fspath(p), "wb") as f:
                        f.write(headc)
                    m.wd[p] = ("file", headc, m.wd[p][2])
                    m.why[p] = "size-changed"
                    stats["probe:head_bytes_put_back_by_hand"] = 1
                    # the reset only where the model can follow it exactly:
                    # every other path is already what reset --hard makes of it
                    st_, un_, ut_ = m.expected()
                    others = (un_ | st_["add"] | st_["delete"] |
                              st_["modify"]) - {p}
                    if op == "stage_revert_reset" and not others:
                        tick()
                        status_check(label + " (before the reset)", r)
                        if viols:
                            break
                        try:
                            porcelain.reset(r, "hard")
                        except Exception as e:  # noqa: BLE001
                            stats["reset_refused:" + type(e).__name__] = 1
                            stopped[0] = True
                            break
                        stats["probe:reset_hard_onto_matching_file"] = 1
                        m.index[p] = m.head[p]
                        m.wd[p] = ("file", headc, m.head[p][0] == 0o100755)
                        tick("after_index_write")
                elif op == "edit_during_stage":
                    # a second process (an editor saving) rewrites the file
                    # while add is between reading it and writing the index:
                    # the simulator runs it at add's first object-store write
                    files = [q for q in present if m.wd[q][0] == "file" and
                             not any(x != q and (x.startswith(q + b"/") or
                                                 q.startswith(x + b"/"))
                                     for x in m.index)]
                    p = pick(files)
                    if p is None:
                        continue
                    new1 = m.wd[p][1] + b"being staged %d\n" % ed["c"]
                    new2 = new1 + b"saved by the editor meanwhile %d\n" % \
                        ed["c"]
                    with open(fspath(p), "wb") as f:
                        f.write(new1)
                    m.wd[p] = ("file", new1, m.wd[p][2])
                    tick()
                    fired = [False]

                    def editor(fs_, call, rel, n, p=p, new2=new2):
                        if fired[0] or "/.git/objects/" not in rel:
                            return
                        fired[0] = True
                        sim.clock.advance(gran + 1)
                        fd = R.os_open(fspath(p), os.O_WRONLY | os.O_TRUNC)
                        try:
                            R.write(fd, new2)
                        finally:
                            R.close(fd)
                        fs.touch_path(fspath(p))
                        sim.clock.advance(gran + 1)
                    fs.boundary_hook = editor
                    try:
                        r.get_worktree().stage([os.fsdecode(p)])
                    except Exception as e:  # noqa: BLE001
                        viol(f"stage-raised/{type(e).__name__}",
                             f"{label} {p!r}: {e!r}")
                        stopped[0] = True
                        break
                    finally:
                        fs.boundary_hook = None
                    m.index[p] = m.wd_entry(p)
                    if fired[0]:
                        stats["probe:file_rewritten_during_add"] = 1
                        m.wd[p] = ("file", new2, m.wd[p][2])
                    tick("after_index_write")
                elif op == "touch":
                    p = pick(present)
                    if p is None or m.wd[p][0] != "file":
                        continue
                    os.utime(fspath(p), None)
                elif op == "chmod":
                    files = [p for p in present if m.wd[p][0] == "file"]
                    p = pick(files)
                    if p is None:
                        continue
                    exe = not m.wd[p][2]
                    os.chmod(fspath(p), 0o755 if exe else 0o644)
                    m.wd[p] = ("file", m.wd[p][1], exe)
                    m.why[p] = "mode-changed"
                elif op == "delete":
                    p = pick(present)
                    if p is None:
                        continue
                    remove_path(p)
                    del m.wd[p]
                    m.why[p] = "deleted"
                elif op == "untracked":
                    p = [b"new%d.txt", b"dir/new%d", b"dir/newsub/n%d",
                         b"b.d/u%d", b"di/r%d", b"dir2/sub/deep/u%d",
                         b"dir/new%d"][ed["i"] % 7] % (ed["i"] % 3)
                    if p in m.wd or any(q.startswith(p + b"/") or
                                        p.startswith(q + b"/") for q in m.wd):
                        continue
                    write_file(p, content(ed["c"]) or b"u")
                    m.wd[p] = ("file", content(ed["c"]) or b"u", False)
                elif op == "untracked_mixed_dir":
                    # an untracked directory holding empty sub-directories
                    # next to one that has a file (whichever is listed first)
                    d = b"ud%d" % (ed["i"] % 3)
                    p = d + [b"/m/f", b"/f", b"/z/y/f"][ed["c"] % 3]
                    if any(q == d or q.startswith(d + b"/") for q in
                           list(m.wd) + list(m.index)):
                        continue
                    for e in (b"/a", b"/n/o", b"/zz"):
                        R.makedirs(fspath(d + e), exist_ok=True)
                    write_file(p, content(ed["c"]) or b"u")
                    m.wd[p] = ("file", content(ed["c"]) or b"u", False)
                    stats["probe:untracked_dir_with_empty_subdirs"] = 1
                elif op in ("to_link", "to_file", "to_dir"):
                    p = pick(present)
                    if op == "to_dir":
                        # prefer a file that is staged but not committed: a
                        # later reset has to drop its entry although a
                        # populated directory now sits there
                        newly = [q for q in present if q in m.index and
                                 q not in m.head and m.wd[q][0] == "file"]
                        if newly and ed["c"] % 5 < 3:
                            p = pick(newly)
                            stats["probe:staged_new_became_directory"] = 1
                    if p is None:
                        continue
                    stats["probe:kind_replacement"] = 1
                    remove_path(p)
                    del m.wd[p]
                    if op == "to_link":
                        R.makedirs(os.path.dirname(fspath(p)), exist_ok=True)
                        os.symlink(b"target-%d" % ed["c"], fspath(p))
                        m.wd[p] = ("link", b"target-%d" % ed["c"])
                        m.why[p] = "became-symlink"
                    elif op == "to_file":
                        write_file(p, b"now a file %d\n" % ed["c"])
                        m.wd[p] = ("file", b"now a file %d\n" % ed["c"],
                                   False)
                        m.why[p] = "became-file"
                    else:
                        q = p + b"/inner"
                        write_file(q, b"inside %d\n" % ed["c"])
                        m.wd[q] = ("file", b"inside %d\n" % ed["c"], False)
                        m.why[p] = "became-directory"
                elif op == "dir_to_file":
                    dirs = sorted({q[:i] for q in present
                                   for i in range(len(q)) if q[i:i + 1] == b"/"})
                    d = pick(dirs)
                    if d is None:
                        continue
                    stats["probe:kind_replacement"] = 1
                    stats["probe:directory_became_file"] = 1
                    import shutil
                    shutil.rmtree(fspath(d))
                    for q in [q for q in m.wd if q.startswith(d + b"/")]:
                        del m.wd[q]
                        m.why[q] = "deleted"
                    write_file(d, b"was a directory %d\n" % ed["c"])
                    m.wd[d] = ("file", b"was a directory %d\n" % ed["c"],
                               False)
                elif op == "new_staged_dir_reset":
                    # a new file is staged, then a populated directory takes
                    # its place, then everything is reset: the staged entry
                    # has to go although the directory stays
                    p = b"fresh%d" % (ed["i"] % 4)
                    if p in m.wd or p in m.index or any(
                            q.startswith(p + b"/") for q in m.wd):
                        continue
                    write_file(p, b"fresh %d\n" % ed["c"])
                    m.wd[p] = ("file", b"fresh %d\n" % ed["c"], False)
                    try:
                        r.get_worktree().stage([os.fsdecode(p)])
                    except Exception as e:  # noqa: BLE001
                        viol(f"stage-raised/{type(e).__name__}",
                             f"{label} {p!r}: {e!r}")
                        stopped[0] = True
                        break
                    m.index[p] = m.wd_entry(p)
                    tick("after_index_write")
                    os.unlink(fspath(p))
                    del m.wd[p]
                    write_file(p + b"/inner", b"inside %d\n" % ed["c"])
                    m.wd[p + b"/inner"] = ("file", b"inside %d\n" % ed["c"],
                                           False)
                    stats["probe:staged_new_became_directory"] = 1
                    try:
                        porcelain.reset(r, "hard")
                    except Exception as e:  # noqa: BLE001
                        stats["reset_refused:" + type(e).__name__] = 1
                        stopped[0] = True
                        break
                    stats["probe:reset_hard"] = 1
                    if m.head != m.index and any(
                            CONTENT.get(sha) is None
                            for (_mo, sha) in m.head.values()):
                        break
                    # HEAD's paths come back, the staged-only entry goes,
                    # untracked files (the directory's content) stay
                    for q in list(m.wd):
                        if q in m.index and q not in m.head:
                            del m.wd[q]
                    for q, (mode, sha) in m.head.items():
                        if sha in CONTENT and not any(
                                w_ != q and (w_.startswith(q + b"/") or
                                             q.startswith(w_ + b"/"))
                                for w_ in m.wd):
                            m.wd[q] = ("link", CONTENT[sha]) \
                                if mode == 0o120000 else \
                                ("file", CONTENT[sha], mode == 0o100755)
                    m.index = dict(m.head)
                    tick("after_index_write")
                elif op == "dir_to_link":
                    # a tracked directory is replaced by a symlink to a
                    # directory elsewhere that holds the same file names
                    dirs = sorted({q[:i] for q in present
                                   for i in range(len(q)) if q[i:i + 1] == b"/"})
                    d = pick(dirs)
                    if d is None:
                        continue
                    stats["probe:kind_replacement"] = 1
                    stats["probe:directory_became_symlink"] = 1
                    twin = os.path.join(root, "twin%d" % ei)
                    for q in [q for q in m.wd if q.startswith(d + b"/")]:
                        sub = q[len(d) + 1:]
                        v = m.wd[q]
                        tp = os.path.join(os.fsencode(twin), sub)
                        R.makedirs(os.path.dirname(tp), exist_ok=True)
                        if v[0] == "file":
                            fd_ = R.os_open(tp, os.O_WRONLY | os.O_CREAT, 0o644)
                            R.write(fd_, v[1] if ed["c"] % 2 else
                                    v[1] + b"!")
                            R.close(fd_)
                        del m.wd[q]
                        m.why[q] = "deleted"
                    import shutil
                    shutil.rmtree(fspath(d))
                    os.symlink(os.fsencode(twin), fspath(d))
                    m.wd[d] = ("link", os.fsencode(twin))
                elif op in ("to_link_same", "to_file_same"):
                    # the type changes, the bytes do not
                    if op == "to_link_same":
                        cands = [q for q in present if m.wd[q][0] == "file"
                                 and 0 < len(m.wd[q][1]) < 200 and
                                 b"\0" not in m.wd[q][1] and not m.wd[q][2]]
                    else:
                        cands = [q for q in present if m.wd[q][0] == "link"]
                    p = pick(cands)
                    if p is None:
                        continue
                    stats["probe:kind_replacement"] = 1
                    stats["probe:type_change_same_bytes"] = 1
                    data = m.wd[p][1]
                    os.unlink(fspath(p))
                    if op == "to_link_same":
                        os.symlink(data, fspath(p))
                        m.wd[p] = ("link", data)
                        m.why[p] = "became-symlink"
                    else:
                        write_file(p, data)
                        m.wd[p] = ("file", data, False)
                        m.why[p] = "became-file"
                elif op == "reset_hard":
                    try:
                        porcelain.reset(r, "hard")
                    except Exception as e:  # noqa: BLE001
                        # reset --hard over a dirty tree is not in the
                        # property's list of operations: a refusal (files or
                        # links in the way of HEAD's paths) proves nothing
                        # either way; only a reset that *succeeds* is judged
                        stats["reset_refused:" + type(e).__name__] = 1
                        stopped[0] = True
                        break
                    stats["probe:reset_hard"] = 1
                    # git: index and tracked files become HEAD; files that
                    # were tracked (in the index) but are not in HEAD go;
                    # untracked files stay
                    for q in list(m.wd):
                        if q in m.index and q not in m.head:
                            del m.wd[q]
                    for q in list(m.wd):
                        # anything in the way of a HEAD path is replaced
                        if any(h == q or h.startswith(q + b"/") or
                               q.startswith(h + b"/") for h in m.head):
                            del m.wd[q]
                    skip = False
                    for q, (mode, sha) in m.head.items():
                        if sha not in CONTENT:
                            skip = True
                            break
                        m.wd[q] = ("link", CONTENT[sha]) if mode == 0o120000 \
                            else ("file", CONTENT[sha], mode == 0o100755)
                    m.index = dict(m.head)
                    if skip:
                        # a large blob the model did not keep: resync from disk
                        break
                    for q, v in m.wd.items():
                        if q not in m.head:
                            continue
                        fp = fspath(q)
                        ok = R.lexists(fp) and (
                            (v[0] == "link" and R.islink(fp) and
                             os.fsencode(R.readlink(fp)) == v[1]) or
                            (v[0] == "file" and not R.islink(fp) and
                             _stat.S_ISREG(R.lstat(fp).st_mode) and
                             util.read_real(fp) == v[1]))
                        if not ok:
                            viol("checkout-content/after-reset-hard",
                                 f"{label}: {q!r} is not HEAD's "
                                 f"{'symlink' if v[0] == 'link' else 'file'}")
                            break
                    tick("after_index_write")
                elif op == "reset_mixed":
                    try:
                        porcelain.reset(r, "mixed", "HEAD")
                    except Exception as e:  # noqa: BLE001
                        viol(f"reset-mixed-raised/{type(e).__name__}",
                             f"{label}: {e!r}")
                        stopped[0] = True
                        break
                    stats["probe:reset_mixed"] = 1
                    m.index = dict(m.head)
                    tick("after_index_write")
                    try:
                        tid = r.open_index().commit(r.object_store)
                        if tid != m.tree_id_of_index(None):
                            viol("roundtrip-tree-id/after-reset-mixed",
                                 f"{label}: index commits to {tid}")
                    except Exception as e:  # noqa: BLE001
                        viol(f"index-commit-raised/{type(e).__name__}",
                             f"{label}: {e!r}")
                elif op == "add_all":
                    try:
                        porcelain.add(r, [wt])
                    except Exception as e:  # noqa: BLE001
                        viol(f"add-raised/{type(e).__name__}",
                             f"{label}: {e!r}")
                        stopped[0] = True
                        break
                    stats["probe:add_all"] = 1
                    idx_before = set(m.index)
                    m.index = {q: m.wd_entry(q) for q in m.wd}
                    tick("after_index_write")
                    try:
                        tid = r.open_index().commit(r.object_store)
                        if tid != m.tree_id_of_index(None):
                            viol("roundtrip-tree-id/after-add-all" + (
                                "/beyond-symlinked-directory" if any(
                                    beyond_link(q) for q in
                                    set(m.index) | set(m.head) | idx_before)
                                else ""),
                                 f"{label}: index commits to {tid}")
                    except Exception as e:  # noqa: BLE001
                        viol(f"index-commit-raised/{type(e).__name__}",
                             f"{label}: {e!r}")
                elif op == "stage":
                    cands = sorted(set(present) | set(tracked))
                    p = pick(cands)
                    if p is None:
                        continue
                    if any(q.startswith(p + b"/") or p.startswith(q + b"/")
                           for q in m.index):
                        # how an index entry colliding with another one is
                        # resolved is not part of the property
                        continue
                    try:
                        r.get_worktree().stage([os.fsdecode(p)])
                    except Exception as e:  # noqa: BLE001
                        viol(f"stage-raised/{type(e).__name__}",
                             f"{label} {p!r}: {e!r}")
                        stopped[0] = True
                        break
                    cur = m.wd_entry(p)
                    if cur is None and beyond_link(p):
                        # git: beyond a symbolic link = gone.  dulwich stages
                        # what the link's target holds (recorded finding);
                        # nothing after this can be compared
                        try:
                            still = p in r.open_index()
                        except Exception:  # noqa: BLE001
                            still = False
                        if still:
                            viol("staged-wrong/entry-kept/"
                                 "beyond-symlinked-directory",
                                 f"{label}: {p!r} staged through the symlink "
                                 f"that replaced its directory")
                            stopped[0] = True
                            break
                    if cur is None:
                        # WorkTree.stage of a path that is gone, or is now a
                        # (non-repository) directory: the entry is dropped
                        m.index.pop(p, None)
                    else:
                        m.index[p] = cur
                    tick("after_index_write")
                elif op == "unstage":
                    p = pick(tracked)
                    if p is None:
                        continue
                    try:
                        r.get_worktree().unstage([os.fsdecode(p)])
                    except Exception as e:  # noqa: BLE001
                        viol(f"unstage-raised/{type(e).__name__}",
                             f"{label} {p!r}: {e!r}")
                        stopped[0] = True
                        break
                    if p in m.head:
                        m.index[p] = m.head[p]
                    else:
                        m.index.pop(p, None)
                    tick("after_index_write")
                elif op == "rm_cached":
                    p = pick(tracked)
                    if p is None:
                        continue
                    try:
                        porcelain.remove(r, [os.fsdecode(fspath(p))],
                                         cached=True)
                    except Exception as e:  # noqa: BLE001
                        stats["rm_cached_refused"] = 1
                        continue
                    m.index.pop(p, None)
                    tick("after_index_write")
                elif op == "commit":
                    try:
                        porcelain.commit(r, message=b"m\n",
                                         author=util.IDENT,
                                         committer=util.IDENT,
                                         commit_timestamp=1700000500 + ei,
                                         commit_timezone=0, no_verify=True)
                    except Exception as e:  # noqa: BLE001
                        viol(f"commit-raised/{type(e).__name__}",
                             f"{label}: {e!r}")
                        stopped[0] = True
                        break
                    m.head = dict(m.index)
                    tick("after_index_write")
                elif op == "switch":
                    st_, un_, ut_ = m.expected()
                    if un_ or any(st_.values()) or ut_ or \
                            m.head != {p: mm for p, mm in m.head.items()}:
                        continue  # only switch from a clean state
                    target = b"other" if m.head != _entries(files2) else \
                        b"main"
                    want = files2 if target == b"other" else files1
                    if m.head not in (_entries(files1), _entries(files2)):
                        continue
                    try:
                        porcelain.checkout(r, target)
                    except Exception as e:  # noqa: BLE001
                        viol(f"switch-raised/{type(e).__name__}",
                             f"{label}: {e!r}")
                        stopped[0] = True
                        break
                    m.head = _entries(want)
                    m.index = dict(m.head)
                    m.wd = dict(want)
                    for p, v in want.items():
                        fp = fspath(p)
                        ok = R.lexists(fp) and (
                            (v[0] == "link" and R.islink(fp) and
                             os.fsencode(R.readlink(fp)) == v[1]) or
                            (v[0] == "file" and not R.islink(fp) and
                             util.read_real(fp) == v[1]))
                        if not ok:
                            viol("checkout-content/after-switch", repr(p))
                    tick("after_index_write")
                tick()
                status_check(label, r)
                if viols:
                    break  # what follows a violation is a cascade
            r.close()

        def _entries(files):
            return {p: (0o100755 if v[2] else 0o100644, blob_sha(v[1]))
                    if v[0] == "file" else (0o120000, blob_sha(v[1]))
                    for p, v in files.items()}

        act = sim.run_inline("main", body)
        gc.collect()
        simfs.deactivate()
        if act.exc is not None:
            import traceback
            viol(f"harness-or-unexpected-exception/{type(act.exc).__name__}",
                 "".join(traceback.format_exception(act.exc))[-800:])
    seen = set()
    out = []
    for v in viols:
        if v["sig"] not in seen:
            seen.add(v["sig"])
            out.append(v)
    stats["sim_ns"] = max(0, sim.clock.advanced)
    stats["clock:" + plan["clock_mode"]] = 1
    if plan["gran_ns"] >= 10**9:
        stats["gran:coarse"] = 1
    stats["policy:sequential"] = 1
    ih = util.h8([plan["tree"], plan["tree2"], plan["edits"],
                  plan["clock_mode"], plan["gran_ns"], plan["checkout_via"]])
    return {"violations": out, "digest": util.h8([sim.digest(),
                                                 [v["sig"] for v in out]]),
            "ihash": ih,
            "nontrivial": bool(stats.get("probe:status_reported_change")),
            "trace": None, "stats": stats, "events": sim.events,
            "sample": {"plan": plan}}


def shrink(plan):
    def cp():
        return json.loads(json.dumps(plan))
    for i in range(len(plan["edits"]) - 1, -1, -1):
        p = cp()
        del p["edits"][i]
        yield p
    for hx in list(plan["tree"]):
        if len(plan["tree"]) > 1:
            p = cp()
            del p["tree"][hx]
            yield p
    if plan["clock_mode"] != "normal":
        p = cp()
        p["clock_mode"] = "normal"
        yield p
    if plan["gran_ns"] != 1:
        p = cp()
        p["gran_ns"] = 1
        yield p
