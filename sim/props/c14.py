"""C14 -- optional acceleration data never changes any answer.

Transparency is a relation between two readers.  Node A opens the repository
as it is; node B opens a copy with every accelerator stripped (commit-graph,
multi-pack-index, bitmaps removed, packed-refs expanded into loose refs); node
C is a long-lived instance opened before the history continued.  The hard
part is reaching stale and mismatched accelerator states: they are produced
by a second process that keeps committing / packing / repacking / collecting
after the files were written, and by files swapped in from another repository
(misdirected write).
"""

from __future__ import annotations

import gc
import io
import json
import os
import random

from .. import simfs, util
from ..kernel import Sim, derive_seed
from ..simfs import R
from ..workloads import history as H

PROP_ID = "C14"
LEVEL = "exploration"
RULE = ("seeded plans: generated history (merges, tags, shared subtrees) in "
        "1-3 packs + loose objects, accelerator subset of {commit-graph, "
        "midx, bitmaps, packed-refs} x pack.indexVersion in {1,2,3}, then 0-4 "
        "staleness steps by a second process {new loose commits, new pack, "
        "pack_loose, repack, gc (prune now), delete ref, move ref, shallow, "
        "graft} and optionally an accelerator file copied from another "
        "repository; queries = get_raw/contains for every known and some "
        "absent ids, parents of every commit, MissingObjectFinder and "
        "reachability sets for random (haves, wants), merge bases, ref map and "
        "peeled values, asked of nodes A (as is), B (accelerators stripped) "
        "and C (long-lived). Distinct by hash of the plan; non-trivial when at "
        "least one accelerator is present and stale or mismatched.")
ASSUMPTIONS = [
    "node B (same data, accelerators removed) is the reference; its object "
    "answers are additionally compared with the object model",
    "accelerator files are written by dulwich, not by C git",
    "single-process sequential histories; the second process acts strictly "
    "between the accelerator write and the queries",
]
COMPONENTS = {
    "real": ["dulwich.commit_graph", "dulwich.midx", "dulwich.bitmap",
             "dulwich.object_store (get_raw/contains via midx, "
             "_collect_ancestors, MissingObjectFinder, reachability "
             "providers)", "dulwich.graph.find_merge_base",
             "dulwich.refs packed-refs cache", "dulwich.pack index v1/v2/v3"],
    "stub": ["clock", "stat metadata", "second process (sequential)",
             "misdirected write (file copied from another repository)"],
}
PROBES = {"stale_accelerator": 1, "mismatched_accelerator": 1,
          "midx_points_at_removed_pack": 1, "commit_graph_used": 1,
          "bitmap_present": 1, "long_lived_queried": 1,
          "two_octopus_merges": 1,
          "refs_read_during_packed_refs_rewrite": 1,
          "writer_handle_queried": 1,
          "accelerators_written_while_shallow": 1,
          "git_style_packed_refs": 1, "tag_moved_after_packing": 1,
          "commit_graph_of_ref_targets_only": 1}
MIN_BUDGET = 120

ACCEL = ["commit-graph", "midx", "bitmap", "packed-refs"]
STALE = ["commit_loose", "add_pack", "pack_loose", "repack", "gc_now",
         "delete_ref", "move_ref", "shallow", "graft", "delete_then_gc",
         "unshallow", "retag"]


FAULT_COUNTERS = {
    "probe:stale_accelerator": "stale derived file (history moved on after "
                               "it was written)",
    "probe:mismatched_accelerator": "misdirected write (accelerator file of "
                                    "another repository)",
    "probe:midx_points_at_removed_pack": "stale multi-pack-index naming a "
                                         "removed pack",
}


def budget(tier):
    return 6000 if tier == "quick" else 300000


def gen_plan(seed, tier):
    rng = random.Random(derive_seed(seed, "c14plan"))
    acc = [a for a in ACCEL if rng.random() < 0.6]
    if not acc:
        acc = [rng.choice(ACCEL)]
    steps = [rng.choice(STALE) for _ in range(rng.choice([0, 1, 2, 2, 3, 4]))]
    n_commits = rng.randint(3, 9 if tier == "quick" else 25)
    # bitmaps only chain (XOR against an entry that is itself XOR-ed) in
    # packs of some size with several overlapping tips: a share of the plans
    # whose writer handle is asked gets a longer history, one pack, no
    # staleness (own generator: the other plans of a seed stay as they were)
    brng = random.Random(derive_seed(seed, "c14bm"))
    bitmap_chain = brng.random() < 0.12
    plan = {"kind": "accel", "seed": seed,
            "n_commits": n_commits,
            "npacks": rng.choice([1, 1, 2, 3]),
            "accel": acc, "idx_version": rng.choice([1, 2, 2, 3]),
            "stale": steps,
            "mismatch": rng.choice([None, None, None, "commit-graph", "midx",
                                    "bitmap"]),
            "long_lived": rng.random() < 0.6,
            "rewrite_after": rng.random() < 0.2,
            # the long-lived node reads refs while the second process
            # rewrites packed-refs (interleaved at system-call granularity)
            "race": rng.choice([None, None, {
                "policy": rng.choice(["uniform", "burst", "pct"]),
                "writer": [rng.choice(["pack_refs", "delete_ref", "move_ref",
                                       "new_ref_packed"])
                           for _ in range(rng.randint(1, 3))],
                "reads": rng.randint(1, 4)}]),
            "keep_writer": rng.random() < 0.5,
            # packed-refs as C git writes it: "peeled fully-peeled" header
            # and a ^line under every annotated tag
            "git_packed": rng.random() < 0.4,
            "cg_tips_only": rng.random() < 0.08,
            # the accelerators are written while the repository is shallow at
            # some commit (as in a shallow clone); 'unshallow' lifts it later
            "shallow_first": rng.random() < 0.25,
            "octopus": rng.choice([0, 0, 0, 0.3, 0.6]),
            "warm": rng.choice(["get_raw", "get_raw", "contains", "packs",
                                "none"])}
    if bitmap_chain:
        plan.update({"n_commits": brng.randint(16, 28), "npacks": 1,
                     "accel": sorted(set(acc) | {"bitmap"}), "stale": [],
                     "mismatch": None, "race": None, "keep_writer": True,
                     "shallow_first": False, "bitmap_chain": True})
    return plan


def strip_accelerators(path):
    """Node B's image: same data, no acceleration files."""
    g = os.path.join(path, ".git")
    for rel in ("objects/info/commit-graph", "objects/pack/multi-pack-index"):
        p = os.path.join(g, rel)
        if R.lexists(p):
            R.unlink(p)
    cg = os.path.join(g, "objects", "info", "commit-graphs")
    if R.lexists(cg):
        util.real_rmtree(cg)
    pd = os.path.join(g, "objects", "pack")
    if R.lexists(pd):
        for n in R.listdir(pd):
            if n.endswith((".bitmap", ".rev")):
                R.unlink(os.path.join(pd, n))
    # expand packed-refs into loose refs (loose wins where both exist)
    pr = os.path.join(g, "packed-refs")
    if R.lexists(pr):
        data = util.read_real(pr)
        for line in data.splitlines():
            if not line or line.startswith((b"#", b"^")):
                continue
            sha, _, name = line.partition(b" ")
            lp = os.path.join(os.fsencode(g), name)
            if not R.lexists(lp):
                R.makedirs(os.path.dirname(lp), exist_ok=True)
                fd = R.os_open(lp, os.O_WRONLY | os.O_CREAT, 0o644)
                try:
                    R.write(fd, sha + b"\n")
                finally:
                    R.close(fd)
        R.unlink(pr)


def answers(repo, u, ids, absent, commits, pairs, tag="A"):
    """Every query, each result normalised; exceptions become values."""
    from dulwich.graph import find_merge_base
    from dulwich.object_store import MissingObjectFinder
    out = {}
    st = repo.object_store

    def q(key, fn):
        try:
            out[key] = fn()
        except KeyError:
            out[key] = "KeyError"
        except (MemoryError, RecursionError) as e:
            out[key] = "BAD:" + type(e).__name__
        except Exception as e:  # noqa: BLE001
            out[key] = "EXC:" + type(e).__name__
    for oid in list(ids) + list(absent):
        q(("get_raw", oid), lambda: st.get_raw(oid))
        q(("contains", oid), lambda: oid in st)
    q("iter", lambda: sorted(set(st)))
    pp = repo.parents_provider()
    for c in commits:
        def par(c=c):
            if c not in st:
                raise KeyError(c)
            return tuple(pp.get_parents(c))
        q(("parents", c), par)
    shallow = None
    try:
        shallow = repo.get_shallow() or None
    except Exception:  # noqa: BLE001
        pass
    for haves, wants in pairs:
        def mof(haves=haves, wants=wants):
            f = MissingObjectFinder(
                st, haves=[h for h in haves if h in st],
                wants=list(wants), shallow=shallow,
                get_parents=lambda commit: pp.get_parents(commit.id, commit))
            return tuple(sorted(x[0] if isinstance(x, tuple) else x
                                for x in f))
        q(("missing", tuple(haves), tuple(wants)), mof)

        def reach(wants=wants, haves=haves):
            prov = st.get_reachability_provider()
            cs = prov.get_reachable_commits(
                list(wants), [h for h in haves if h in st], shallow)
            return tuple(sorted(cs))
        q(("reachable-commits", tuple(haves), tuple(wants)), reach)

        def reach_objs(wants=wants):
            # (the providers agree on what a *closed* set of commits holds;
            # for a set that is not closed under ancestry the interface does
            # not say whether ancestors count)
            prov = st.get_reachability_provider()
            cs = prov.get_reachable_commits(list(wants), [], shallow)
            return tuple(sorted(prov.get_reachable_objects(sorted(cs))))
        q(("reachable-objects", tuple(wants)), reach_objs)
        if len(wants) >= 1 and haves:
            def mb(a=wants[0], b=haves[0]):
                return tuple(sorted(find_merge_base(repo, [a, b])))
            q(("merge-base", wants[0], haves[0]), mb)
    q("refs", lambda: tuple(sorted(repo.refs.as_dict().items())))

    def peeled():
        res = []
        for n in sorted(repo.refs.allkeys()):
            v = repo.refs.get_peeled(n)
            res.append((n, v))
        return tuple(res)
    # the peeled value of every ref (what a server advertises as ref^{}):
    # packed-refs caches it, the answer must not depend on that
    try:
        names = sorted(repo.refs.allkeys())
    except Exception:  # noqa: BLE001
        names = []
    for n in names:
        def pl(n=n):
            return repo.get_peeled(n)
        q(("peeled", n), pl)
    q("keys", lambda: tuple(sorted(repo.refs.allkeys())))
    return out


def run_plan(plan):
    from dulwich.gc import garbage_collect
    from dulwich.repo import Repo
    race = plan.get("race") if plan.get("long_lived") else None
    sched = {"policy": "sequential"}
    if race:
        sched = {"policy": race["policy"]}
        if race["policy"] == "burst":
            sched["p_switch"] = 0.15
        if race["policy"] == "pct":
            sched.update(depth=2, est_steps=300)
    sim = Sim(seed=plan["seed"], sched=sched,
              clock={"step_lo_ns": 1000, "step_hi_ns": 1000})
    viols = []
    stats = {}

    def viol(sig, detail):
        viols.append({"sig": "C14/" + sig, "detail": str(detail)[:800]})

    with util.Sandbox() as root:
        fs = simfs.FS(root, sim, {"shuffle_listdir": True})
        simfs.activate(fs)
        rng = random.Random(derive_seed(plan["seed"], "c14build"))
        u = H.Universe()
        rp = os.path.join(root, "repo")
        cfg = {((b"pack",), b"indexVersion"): b"%d" % plan["idx_version"]}
        r = util.init_repo(rp, config=cfg)
        hist = H.gen_history(u, rng, plan["n_commits"], salt=b"A",
                             octopus=plan.get("octopus", 0))
        if sum(1 for c in hist["commits"] if len(u.parents(c)) > 2) >= 2:
            stats["probe:two_octopus_merges"] = 1
        commits = list(hist["commits"])
        tips = list(hist["heads"]) + list(hist["tags"].values())
        all_ids = sorted(u.closure(commits + list(hist["tags"].values())))
        # a shallow clone: what lies below one commit is not there yet
        shallow_at = None
        below = set()
        if plan.get("shallow_first"):
            withp = [c_ for c_ in commits if u.parents(c_)]
            if withp:
                shallow_at = rng.choice(withp)
                keep = set()
                todo = list(hist["heads"]) + list(hist["tags"].values()) + \
                    [commits[0]]
                while todo:
                    o = todo.pop()
                    if o in keep or o not in u.objs:
                        continue
                    keep.add(o)
                    ed_ = u.edges[o]
                    if o == shallow_at:
                        ed_ = ed_[:1]  # its tree, not its parents
                    todo.extend(ed_)
                below = set(all_ids) - keep
                if commits[0] in below or not below:
                    shallow_at = None
                    below = set()
        # objects in npacks packs + a loose remainder
        chunks = plan["npacks"] + 1
        per = max(1, len(commits) // chunks)
        done = set()
        for i in range(plan["npacks"]):
            part = commits[i * per:(i + 1) * per] if i < plan["npacks"] - 1 \
                else commits[i * per:len(commits) - 1]
            ids = sorted(u.closure(part) - done - below)
            if ids:
                u.add_to_store(r.object_store, ids)
                r.object_store.pack_loose_objects()
                done |= set(ids)
        u.add_to_store(r.object_store, [i for i in all_ids
                                        if i not in done and i not in below])
        refs = {}
        for i, h in enumerate(hist["heads"][:4]):
            refs[b"refs/heads/h%d" % i] = h
        refs.update(hist["tags"])
        refs[b"refs/heads/first"] = commits[0]
        for k, v in sorted(refs.items()):
            r.refs[k] = v
        r.refs.set_symbolic_ref(b"HEAD", sorted(
            k for k in refs if k.startswith(b"refs/heads/"))[0])
        model_refs = dict(refs)  # what the refs must read as, throughout
        if shallow_at is not None:
            r.update_shallow([shallow_at], [])
            stats["probe:accelerators_written_while_shallow"] = 1
        # ---- write the accelerators
        acc = plan["accel"]
        if "packed-refs" in acc:
            r.refs.pack_refs(all=True)
            if plan.get("git_packed"):
                from dulwich.object_store import peel_sha
                prp = os.path.join(rp, ".git", "packed-refs")
                with open(prp, "rb") as f:
                    lines = [ln for ln in f.read().splitlines()
                             if ln and not ln.startswith((b"#", b"^"))]
                outl = [b"# pack-refs with: peeled fully-peeled sorted "]
                for ln in sorted(lines, key=lambda x: x.split(b" ", 1)[1]):
                    outl.append(ln)
                    sha = ln.split(b" ", 1)[0]
                    try:
                        un, pe = peel_sha(r.object_store, sha)
                    except KeyError:
                        continue
                    if pe.id != sha:
                        outl.append(b"^" + pe.id)
                with open(prp + ".new", "wb") as f:
                    f.write(b"\n".join(outl) + b"\n")
                os.rename(prp + ".new", prp)
                stats["probe:git_style_packed_refs"] = 1
        if "commit-graph" in acc:
            if plan.get("cg_tips_only"):
                # the documented "only the ref targets" form
                r.object_store.write_commit_graph(
                    sorted(set(v for v in r.refs.as_dict().values()
                               if v in commits)), reachable=False)
                stats["probe:commit_graph_of_ref_targets_only"] = 1
            else:
                r.object_store.write_commit_graph()
        if "midx" in acc and list(r.object_store.packs):
            r.object_store.write_midx()
        if "bitmap" in acc and list(r.object_store.packs):
            try:
                r.object_store.generate_pack_bitmaps(
                    {k: v for k, v in r.refs.as_dict().items()})
                stats["probe:bitmap_present"] = 1
            except Exception as e:  # noqa: BLE001
                viol(f"bitmap-generation-failed/{type(e).__name__}", repr(e))
        # node G: the very handle that wrote the accelerators and keeps using
        # what it generated in memory (asked only while nothing has changed)
        node_g = None
        if plan.get("keep_writer") and not plan["stale"] and \
                not plan["mismatch"] and not plan.get("race"):
            node_g = r
            stats["probe:writer_handle_queried"] = 1
        else:
            r.close()
        # ---- the long-lived node opens now and warms its caches
        node_c = None
        if plan["long_lived"]:
            node_c = Repo(rp)
            # how much of the store the long-lived node has touched so far
            warm = plan.get("warm", "get_raw")
            there = [i for i in all_ids if i not in below]
            if warm == "get_raw":
                for oid in there[:5]:
                    node_c.object_store.get_raw(oid)
            elif warm == "contains":
                for oid in there[:5]:
                    oid in node_c.object_store  # noqa: B015
            elif warm == "packs":
                list(node_c.object_store.packs)
            list(node_c.refs.as_dict())
            try:
                node_c.object_store.get_midx()
                node_c.object_store.get_commit_graph()
            except Exception:  # noqa: BLE001
                pass
        # ---- a second process carries on (staleness)
        w = Repo(rp)
        extra_ids = []
        graft = None
        for si, step in enumerate(plan["stale"]):
          try:
            stats["probe:stale_accelerator"] = 1
            if step in ("commit_loose", "add_pack"):
                hb = H.gen_history(u, rng, rng.randint(1, 2),
                                   t0=1700100000 + si * 1000,
                                   salt=b"N%d" % si, tags=False)
                alive = [c for c in commits if c in w.object_store and
                         all(i in w.object_store for i in u.closure([c]))]
                if not alive:
                    continue
                top = u.commit(hb["trees_of"][hb["commits"][-1]],
                               [rng.choice(alive)], 1700200000 + si,
                               b"later %d\n" % si)
                ids = sorted(u.closure([top]) - set(all_ids) - set(extra_ids))
                if step == "commit_loose":
                    u.add_to_store(w.object_store, ids)
                else:
                    from .c10 import _pack_bytes
                    f, commit, abort = w.object_store.add_pack()
                    f.write(_pack_bytes(u, ids))
                    commit()
                extra_ids += ids
                commits.append(top)
                w.refs[b"refs/heads/new%d" % si] = top
                model_refs[b"refs/heads/new%d" % si] = top
            elif step == "pack_loose":
                w.object_store.pack_loose_objects()
            elif step == "repack":
                w.object_store.repack()
                if "midx" in acc:
                    stats["probe:midx_points_at_removed_pack"] = 1
            elif step == "gc_now":
                garbage_collect(w, grace_period=None)
                if "midx" in acc:
                    stats["probe:midx_points_at_removed_pack"] = 1
            elif step in ("delete_ref", "delete_then_gc"):
                cands = sorted(k for k in w.refs.allkeys()
                               if k.startswith((b"refs/heads/h",
                                                b"refs/tags/")))
                if cands:
                    dn = rng.choice(cands)
                    del w.refs[dn]
                    model_refs.pop(dn, None)
                if step == "delete_then_gc":
                    garbage_collect(w, grace_period=None)
                    if "midx" in acc:
                        stats["probe:midx_points_at_removed_pack"] = 1
            elif step == "move_ref":
                cands = sorted(k for k in w.refs.allkeys()
                               if k.startswith(b"refs/heads/"))
                alive = [c for c in commits if
                         all(i in w.object_store for i in u.closure([c]))]
                if cands and alive:
                    mn = rng.choice(cands)
                    # sometimes back to the value packed-refs still records
                    mv = refs.get(mn) if (rng.random() < 0.4 and
                                          refs.get(mn) in alive) else \
                        rng.choice(alive)
                    w.refs[mn] = mv
                    model_refs[mn] = mv
            elif step == "retag":
                cands = sorted(k for k in w.refs.allkeys()
                               if k.startswith(b"refs/tags/"))
                alive = [c for c in commits if c in w.object_store]
                if cands and alive:
                    tn = rng.choice(cands)
                    tv = rng.choice(alive)
                    if rng.random() < 0.6:
                        # tag -f -a: a new annotated tag under the same name
                        tv = u.tag(tn.rsplit(b"/", 1)[1], tv,
                                   1700300000 + si)
                        u.add_to_store(w.object_store, [tv])
                        extra_ids.append(tv)
                    w.refs[tn] = tv
                    model_refs[tn] = tv
                    stats["probe:tag_moved_after_packing"] = 1
            elif step == "shallow":
                c = rng.choice(commits)
                if c not in w.object_store:
                    continue
                try:
                    w.update_shallow([c], [])
                except Exception as e:  # noqa: BLE001
                    viol(f"update_shallow-raised/{type(e).__name__}", repr(e))
            elif step == "unshallow":
                if shallow_at is not None:
                    try:
                        # the missing history arrives, the boundary goes
                        u.add_to_store(w.object_store, sorted(below))
                        below = set()
                        w.update_shallow([], [shallow_at])
                        shallow_at = None
                    except Exception as e:  # noqa: BLE001
                        viol(f"update_shallow-raised/{type(e).__name__}",
                             repr(e))
            elif step == "graft":
                alive = [c for c in commits if c in w.object_store]
                if not alive:
                    continue
                c = rng.choice(alive)
                newp = [rng.choice(alive)] if rng.random() < 0.6 else []
                if c not in newp:
                    graft = (c, newp)
                    with open(os.path.join(rp, ".git", "info", "grafts") if
                              R.lexists(os.path.join(rp, ".git", "info"))
                              else os.path.join(rp, ".git", "grafts.tmp"),
                              "wb") as f:
                        f.write(c + (b" " + b" ".join(newp) if newp else b"")
                                + b"\n")
          except Exception as e:  # noqa: BLE001
            # the second process is dulwich too: an operation that fails
            # because of what an accelerator says is an answer changed by it
            viol(f"second-process-step-raised/{step}/{type(e).__name__}",
                 f"step {si} {step}: {e!r}; accel={plan['accel']}")
            break
        if race and node_c is not None:
            stats["probe:refs_read_during_packed_refs_rewrite"] = 1

            def writer_body(a):
                for j, wop in enumerate(race["writer"]):
                    heads_ = sorted(k for k in w.refs.allkeys()
                                    if k.startswith(b"refs/heads/h"))
                    if wop == "pack_refs":
                        w.refs.pack_refs(all=True)
                    elif wop == "delete_ref" and len(heads_) > 1:
                        dn = heads_[-1]
                        del w.refs[dn]
                        model_refs.pop(dn, None)
                    elif wop == "move_ref" and heads_:
                        alive_ = [c_ for c_ in commits if all(
                            i in w.object_store for i in u.closure([c_]))]
                        if alive_:
                            w.refs[heads_[0]] = alive_[j % len(alive_)]
                            model_refs[heads_[0]] = alive_[j % len(alive_)]
                    elif wop == "new_ref_packed":
                        nn = b"refs/heads/raced%d" % j
                        w.refs[nn] = commits[0]
                        model_refs[nn] = commits[0]
                        w.refs.pack_refs(all=True)

            def reader_body(a):
                for _ in range(race["reads"]):
                    try:
                        node_c.refs.as_dict()
                    except Exception:  # noqa: BLE001 - judged afterwards
                        pass
            sim.actor("w", writer_body)
            sim.actor("c", reader_body)
            sim.run()
            if sim.abort_reason:
                viol(f"race-phase/{sim.abort_reason}", "")
            for a_ in sim.actors:
                if a_.exc is not None:
                    viol(f"race-phase-exception/{a_.name}/"
                         f"{type(a_.exc).__name__}", repr(a_.exc)[:300])
        if plan["rewrite_after"]:
            # accelerators refreshed after the history moved on
            if "commit-graph" in acc:
                w.object_store.write_commit_graph()
            if "midx" in acc and list(w.object_store.packs):
                w.object_store.write_midx()
        w.close()
        # ---- misdirected write: a file from another repository
        if plan["mismatch"]:
            op = os.path.join(root, "other")
            o = util.init_repo(op)
            uo = H.Universe()
            ho = H.gen_history(uo, rng, 4, salt=b"OTHER")
            uo.add_to_store(o.object_store, sorted(uo.closure(ho["commits"])))
            o.object_store.pack_loose_objects()
            for i, h in enumerate(ho["heads"]):
                o.refs[b"refs/heads/o%d" % i] = h
            src = dst = None
            if plan["mismatch"] == "commit-graph":
                o.object_store.write_commit_graph()
                src = os.path.join(op, ".git", "objects", "info",
                                   "commit-graph")
                dst = os.path.join(rp, ".git", "objects", "info",
                                   "commit-graph")
            elif plan["mismatch"] == "midx":
                o.object_store.write_midx()
                src = os.path.join(op, ".git", "objects", "pack",
                                   "multi-pack-index")
                dst = os.path.join(rp, ".git", "objects", "pack",
                                   "multi-pack-index")
            else:
                try:
                    o.object_store.generate_pack_bitmaps(
                        dict(o.refs.as_dict()))
                except Exception:  # noqa: BLE001
                    pass
                opd = os.path.join(op, ".git", "objects", "pack")
                rpd = os.path.join(rp, ".git", "objects", "pack")
                bms = [n for n in sorted(R.listdir(opd))
                       if n.endswith(".bitmap")]
                pks = [n for n in sorted(R.listdir(rpd))
                       if n.endswith(".pack")]
                if bms and pks:
                    src = os.path.join(opd, bms[0])
                    dst = os.path.join(rpd, pks[0][:-5] + ".bitmap")
            o.close()
            if src and R.lexists(src):
                R.makedirs(os.path.dirname(dst), exist_ok=True)
                data = util.read_real(src)
                if R.lexists(dst):
                    R.chmod(dst, 0o644)
                fd = R.os_open(dst, os.O_WRONLY | os.O_CREAT | os.O_TRUNC,
                               0o644)
                try:
                    R.write(fd, data)
                finally:
                    R.close(fd)
                fs.touch_path(dst)
                stats["probe:mismatched_accelerator"] = 1
        # ---- node B: a copy with every accelerator stripped
        bp = os.path.join(root, "imageB")
        util.real_copytree(rp, bp)
        strip_accelerators(bp)
        known = sorted(set(all_ids) | set(extra_ids))
        absent = [b"%040x" % (i + 1) for i in range(3)]
        prs = []
        qrng = random.Random(derive_seed(plan["seed"], "c14q"))
        for _ in range(4):
            wants = qrng.sample(commits, min(len(commits),
                                             qrng.choice([1, 1, 2])))
            haves = qrng.sample(commits, min(len(commits),
                                             qrng.choice([0, 1, 2])))
            prs.append((tuple(haves), tuple(wants)))
        node_a = Repo(rp)
        node_b = Repo(bp)
        # only well-posed questions: about commits that (still) exist, with
        # their whole closure, in the reference image
        live = [c for c in commits if
                all(i in node_b.object_store for i in u.closure([c]))]
        prs = [(tuple(h for h in hv if h in live),
                tuple(x for x in wn if x in live)) for hv, wn in prs]
        prs = [p for p in prs if p[1]]
        commits_q = live
        try:
            if node_a.object_store.get_commit_graph() is not None:
                stats["probe:commit_graph_used"] = 1
        except Exception:  # noqa: BLE001
            pass
        try:
            ans_b = answers(node_b, u, known, absent, commits_q, prs, "B")
            ans_a = answers(node_a, u, known, absent, commits_q, prs, "A")
            ans_g = None
            if node_g is not None:
                ans_g = answers(node_g, u, known, absent, commits_q, prs, "G")
            ans_c = None
            if node_c is not None:
                stats["probe:long_lived_queried"] = 1
                ans_c = answers(node_c, u, known, absent, commits_q, prs,
                                "C")
        finally:
            node_a.close()
            node_b.close()
            if node_g is not None:
                node_g.close()
            if node_c is not None:
                node_c.close()
        gc.collect()
        simfs.deactivate()
        # ---- B against the object model (harness sanity + C01/C02 trust)
        for oid in known:
            got = ans_b.get(("get_raw", oid))
            if got not in ("KeyError", u.objs[oid]):
                viol("reference-node-disagrees-with-model/get_raw",
                     f"{oid}: {got!r:.80}")
        want_refs = {k: v for k, v in model_refs.items()}
        got_refs = ans_b.get("refs")
        if isinstance(got_refs, tuple):
            got_map = {k: v for k, v in got_refs if k != b"HEAD"}
            if got_map != want_refs:
                diff = sorted(set(got_map.items()) ^ set(want_refs.items()))
                viol("reference-node-disagrees-with-model/refs",
                     f"refs on disk differ from what was written: "
                     f"{diff[:4]}")
        what = "+".join(sorted(acc)) or "none"
        ctx = f"accel={acc} idx=v{plan['idx_version']} stale={plan['stale']} " \
              f"mismatch={plan['mismatch']} rewrite={plan['rewrite_after']}"
        for who, ans in (("A", ans_a), ("C", ans_c), ("G", ans_g)):
            if ans is None:
                continue
            for key, vb in ans_b.items():
                va = ans.get(key)
                if va == vb:
                    continue
                kind = key[0] if isinstance(key, tuple) else key
                if who == "C":
                    # the long-lived node must agree on objects that exist
                    # throughout and on current ref values; what it still
                    # holds of removed objects, and grafts/shallow files
                    # written after it started, are not promised
                    if kind not in ("get_raw", "contains", "refs", "keys",
                                    "peeled"):
                        continue
                    if kind in ("get_raw", "contains") and vb in (
                            "KeyError", False):
                        continue
                if who == "G":
                    # the handle that generated bitmaps answers from them.
                    # The two reachability providers implement different
                    # readings of 'exclude' (stop at / subtract the closure
                    # of) and of get_reachable_objects (with / without root
                    # trees and ancestors) -- an ambiguity of that interface,
                    # not an effect of the accelerator: only questions both
                    # read the same way are compared
                    if kind == "reachable-objects":
                        continue
                    if kind == "reachable-commits" and key[1]:
                        continue
                if isinstance(va, str) and va.startswith("BAD:"):
                    viol(f"abnormal-exception/{kind}/{va[4:]}", f"{ctx}")
                    continue
                cls = "answer-differs" if who == "A" else \
                    "writer-handle-differs" if who == "G" else \
                    "long-lived-instance-stale"
                cause = plan["mismatch"] and f"mismatched-{plan['mismatch']}" \
                    or (plan["stale"] and "stale") or "fresh"
                if plan.get("cg_tips_only") and "commit-graph" in \
                        plan["accel"] and kind not in (
                            "get_raw", "contains", "iter", "refs", "keys",
                            "peeled"):
                    # (questions a parents provider has a say in)
                    cause += "/commit-graph-of-ref-targets-only"
                if isinstance(va, str) and va.startswith("EXC:"):
                    cause += "/raised-" + va[4:]
                viol(f"{cls}/{kind}/{cause}",
                     f"node {who} {key!r:.120} -> {va!r:.160}; node B "
                     f"(accelerators stripped) -> {vb!r:.160}; {ctx}")
                break
    seen = set()
    out = []
    for v in viols:
        if v["sig"] not in seen:
            seen.add(v["sig"])
            out.append(v)
    stats["sim_ns"] = sim.clock.advanced
    stats["policy:sequential"] = 1
    for a in plan["accel"]:
        stats["accel:" + a] = 1
    ih = util.h8(plan)
    nontrivial = bool(plan["accel"]) and (bool(plan["stale"]) or
                                          bool(plan["mismatch"]))
    return {"violations": out, "digest": util.h8([sim.digest(),
                                                 [v["sig"] for v in out]]),
            "ihash": ih, "nontrivial": nontrivial, "trace": None,
            "stats": stats, "events": sim.events, "sample": {"plan": plan}}


def shrink(plan):
    def cp():
        return json.loads(json.dumps(plan))
    for i in range(len(plan["stale"]) - 1, -1, -1):
        p = cp()
        del p["stale"][i]
        yield p
    for a in list(plan["accel"]):
        if len(plan["accel"]) > 1:
            p = cp()
            p["accel"].remove(a)
            yield p
    if plan.get("race"):
        p = cp()
        p["race"] = None
        yield p
    if plan.get("shallow_first"):
        p = cp()
        p["shallow_first"] = False
        yield p
    for k, v in (("octopus", 0), ("warm", "get_raw")):
        if plan.get(k, v) != v:
            p = cp()
            p[k] = v
            yield p
    for k, v in (("mismatch", None), ("long_lived", False),
                 ("rewrite_after", False), ("idx_version", 2), ("npacks", 1)):
        if plan[k] != v:
            p = cp()
            p[k] = v
            yield p
    if plan["n_commits"] > 3:
        p = cp()
        p["n_commits"] -= 1
        yield p
