"""C16 -- ref backends obey one contract; the files backend matches the model.

Operation histories (<= 30 steps) over a universe with directory/file
conflicts, symref chains and loops, attached/detached HEAD, loose/packed/both
refs and peeled tags, interleaved with pack_refs, re-opening the container and
alternating between two handles on the same directory (two processes taking
turns), under clock configurations where the stat-validated packed-refs cache
is weakest (coarse granularity, zero step), with stale *.lock files as fault
steps.  Oracle: step-by-step refinement against a map model.
"""

from __future__ import annotations

import gc
import hashlib
import json
import os
import random

from .. import simfs, util
from ..kernel import Sim, derive_seed
from ..simfs import R

PROP_ID = "C16"
LEVEL = "exploration"
RULE = ("seeded operation sequences (6-30 steps) over 10 names incl. "
        "refs/heads/a vs refs/heads/a/b and refs/tags/t vs refs/tags/t/x, "
        "symref chains/loops, ops = set/cas/add_if_new/remove_if_equals/del/"
        "set_symbolic_ref/import_refs/pack_refs(all|tags)/reopen/switch-handle/"
        "stale-lock + every read (get, read_ref, contains, follow, as_dict, "
        "keys(base), allkeys, get_symrefs, get_peeled); backends files (two "
        "handles), dict, reftable, and the namespaced view over the files "
        "backend (with a bystander ref of the enclosing repository). Distinct by hash of the op sequence and "
        "clock configuration; non-trivial when the sequence contains a "
        "pack_refs or handle switch between two writes.")
ASSUMPTIONS = [
    "the model encodes the documented RefsContainer contract: old=None "
    "unconditional, old=ZERO must-not-exist, set_if_equals/add_if_new follow "
    "symrefs, remove_if_equals does not, reads follow up to depth 5",
    "a refused operation may raise any OSError/KeyError/ValueError subclass; "
    "what matters is that nothing changed",
    "the two handles are used strictly in turn (interleaving is C08's subject)",
    "check_ref_format vs git check-ref-format is a pure function of a byte "
    "string and is not decided here; C git's for-each-ref is not consulted",
]
COMPONENTS = {
    "real": ["dulwich.refs.DiskRefsContainer", "dulwich.refs.DictRefsContainer",
             "dulwich.reftable.ReftableRefsContainer",
             "dulwich.refs.NamespacedRefsContainer", "dulwich.file.GitFile",
             "tmpfs"],
    "stub": ["clock and file timestamps (granularity, zero step)",
             "stat metadata (virtual inode numbers)", "random (reftable names)"],
}
PROBES = {"pack_between_writes": 1, "handle_switch_after_write": 1,
          "df_conflict_refused": 1, "stale_lock_refused": 1,
          "empty_dirs_at_ref_path": 1,
          "loose_over_packed": 1}
MIN_BUDGET = 300

ZERO = "0" * 40
SYM = "ref: "
A = "refs/heads/a"
AB = "refs/heads/a/b"
B = "refs/heads/b"
C_ = "refs/heads/c"
C2 = "refs/heads/c2"   # shares a *string* prefix with refs/heads/c
T = "refs/tags/t"
TX = "refs/tags/t/x"
RM = "refs/remotes/o/m"
S1 = "refs/heads/sym"
L1 = "refs/heads/l1"
L2 = "refs/heads/l2"
HEAD = "HEAD"
OUTSIDE = "refs/heads/outside"
PLAIN = [A, AB, B, C_, C2, T, TX, RM]
ALL = [HEAD, *PLAIN, S1, L1, L2]
BAD_NAMES = ["refs/heads/a..b", "refs/heads/.hid", "refs/heads/x.lock",
             "refs/heads/sp ace", "refs/heads/", "refs//double",
             "refs/heads/ctl\x01", "refs/heads/q?", "notrefs/x",
             "refs/heads/back\\slash", "refs/heads/at@{brace",
             "refs/heads/tilde~1", "refs/heads/caret^", "refs/heads/co:lon",
             "refs/heads/star*", "refs/heads/br[acket", "refs/heads/del\x7f",
             "refs/heads/end.", "refs/heads/a/.hid", "@"]


def val(n):
    return hashlib.sha1(b"c16-%d" % n).hexdigest()


FAULT_COUNTERS = {
    "probe:stale_lock_refused": "stale lock file left by a crashed writer",
    "probe:handle_switch_after_write": "second process (another handle with "
                                       "its own caches)",
}


def budget(tier):
    return 4000 if tier == "quick" else 250000


def gen_plan(seed, tier):
    rng = random.Random(derive_seed(seed, "c16plan"))
    backend = rng.choice(["files"] * 9 + ["dict", "dict", "reftable"])
    # round 5: the namespaced view over the files backend (its own generator,
    # so that the other plans of a seed stay what they were)
    if random.Random(derive_seed(seed, "c16ns")).random() < 0.12:
        backend = "namespaced"
    filesy = backend in ("files", "namespaced")
    n = rng.randint(6, 30)
    nv = [0]

    used = []

    def fresh():
        # mostly new values; sometimes a value used before, so that "already
        # has this value" shortcuts and stale copies of it are exercised
        if used and rng.random() < 0.3:
            return rng.choice(used[-6:])
        nv[0] += 1
        used.append(val(nv[0]))
        return used[-1]
    ops = []
    restricted = not filesy
    for _ in range(n):
        r = rng.random()
        name = rng.choice(ALL if not restricted else
                          [HEAD, A, B, C_, C2, T, RM, S1])
        # the dict and reftable backends are only promised to agree on
        # sequences that do not write through symbolic refs (creating,
        # re-pointing and deleting the symbolic ref itself is not a write
        # *through* it)
        wname = name if not restricted or name not in (HEAD, S1) else \
            rng.choice([A, B, C_, C2, T, RM])
        if r < 0.16:
            ops.append({"k": "set", "name": wname, "new": fresh()})
        elif r < 0.28:
            ops.append({"k": "cas", "name": wname,
                        "old": rng.choice(["cur", "cur", "cur", "zero",
                                           "stale"]), "new": fresh()})
        elif r < 0.34:
            ops.append({"k": "add", "name": wname, "new": fresh()})
        elif r < 0.42:
            ops.append({"k": "rm", "name": name if name != HEAD else A,
                        "old": rng.choice(["cur", "cur", "none", "stale"])})
        elif r < 0.47:
            ops.append({"k": "del", "name": name if name != HEAD else B})
        elif r < 0.55 and not restricted:
            src = rng.choice([HEAD, HEAD, S1, L1, L2])
            tgt = {HEAD: rng.choice([A, B, C_, S1, AB]), S1: B, L1: L2,
                   L2: L1}[src]
            if filesy and rng.random() < 0.15:
                # a symbolic ref under a name that may collide, as directory
                # versus file, with a plain ref (loose or packed)
                src, tgt = rng.choice([(A, C_), (AB, B)])
            ops.append({"k": "symref", "name": src, "target": tgt})
        elif r < 0.55:
            ops.append({"k": "symref", "name": rng.choice([HEAD, HEAD, S1]),
                        "target": rng.choice([A, B, C_])})
        elif r < 0.64 and filesy:
            ops.append({"k": "pack", "all": rng.random() < 0.75})
        elif r < 0.73 and filesy:
            ops.append({"k": rng.choice(["reopen", "switch", "switch",
                                         "switch"])})
        elif r < 0.75 and backend == "files":
            ops.append({"k": "stale_lock",
                        "name": rng.choice([A, B, T, "packed-refs", HEAD]),
                        "then": rng.choice(["set", "cas", "rm", "pack",
                                            "symref"]), "new": fresh()})
        elif r < 0.765 and backend == "files":
            # empty directories left where a ref may be created later (a
            # crashed writer, another tool): they hold no ref
            ops.append({"k": "stale_dirs",
                        "name": rng.choice([A, B, T, S1, L1]),
                        "sub": rng.choice(["x", "x/y", "x/y/z"])})
        elif r < 0.79:
            ops.append({"k": "import", "base": "refs/remotes/o",
                        "refs": {rng.choice(["m", "n", "p"]): fresh()
                                 for _ in range(rng.randint(1, 2))},
                        "prune": rng.random() < 0.4})
        elif r < 0.82:
            ops.append({"k": "badname", "name": rng.choice(BAD_NAMES),
                        "new": fresh()})
        elif r < 0.86:
            ops.append({"k": "advance",
                        "ns": rng.choice([0, 1, 10**6, 10**9, 3 * 10**9])})
        else:
            ops.append({"k": "read", "name": name})
    if filesy and rng.random() < 0.12:
        # what one handle knows about packed-refs goes stale: it looks, the
        # other handle writes a ref and packs it, the first one acts on it
        x = rng.choice([A, B, C_, T, RM])
        seq = [{"k": "read", "name": rng.choice([A, B, C_, T, RM])},
               {"k": "switch"},
               {"k": "set", "name": x, "new": fresh()},
               {"k": "pack", "all": True},
               {"k": "switch"},
               rng.choice([{"k": "del", "name": x},
                           {"k": "rm", "name": x, "old": "cur"},
                           {"k": "cas", "name": x, "old": "cur",
                            "new": fresh()},
                           {"k": "add", "name": x, "new": fresh()},
                           {"k": "read", "name": x}])]
        at = rng.randrange(len(ops) + 1)
        ops[at:at] = seq
    # a delete whose packed-refs rewrite cannot happen (the lock of a crashed
    # or concurrent packer is in the way) while the loose file shadows an
    # *older* packed value: the ref keeps its value or goes, it never falls
    # back (own generator: the other plans of a seed stay what they were)
    drng = random.Random(derive_seed(seed, "c16del"))
    if backend == "files" and drng.random() < 0.08:
        nv[0] += 2
        seq = [{"k": "set", "name": A, "new": val(nv[0] - 1)},
               {"k": "pack", "all": True},
               {"k": "set", "name": A, "new": val(nv[0])},
               {"k": "stale_lock", "name": "packed-refs", "then": "rm",
                "new": val(nv[0])},
               {"k": "read", "name": A}]
        at = drng.randrange(len(ops) + 1)
        ops[at:at] = seq
    init_packed = {}
    if backend == "files" and rng.random() < 0.5:
        for nm in rng.sample([A, B, T, RM, C_], rng.randint(1, 3)):
            init_packed[nm] = fresh()
    return {"kind": backend, "seed": seed, "ops": ops,
            "init_packed": init_packed,
            "peeled": rng.random() < 0.4,
            "clock": {"step_lo_ns": 0,
                      "step_hi_ns": rng.choice([0, 0, 1000, 10**6]),
                      "gran_ns": rng.choice([1, 10**6, 10**9, 2 * 10**9])}}


# ------------------------------------------------------------------ model
class Model:
    def __init__(self):
        self.d = {}

    def follow(self, name):
        depth = 0
        cur = name
        chain = []
        while True:
            chain.append(cur)
            v = self.d.get(cur)
            if v is None:
                return chain, None
            if not v.startswith(SYM):
                return chain, v
            cur = v[len(SYM):]
            depth += 1
            if depth > 5:
                return chain, "LOOP"

    def conflict(self, name):
        """A directory/file collision with an existing *other* ref."""
        if name == HEAD:
            return False
        for other in self.d:
            if other == name or other == HEAD:
                continue
            if other.startswith(name + "/") or name.startswith(other + "/"):
                return True
        return False

    def resolve(self, name):
        chain, v = self.follow(name)
        return v


def _targets(plan):
    pass


# ---------------------------------------------------------------- running
def _refused():
    from dulwich.errors import RefFormatError
    return (OSError, KeyError, ValueError, IndexError, RefFormatError)


REFUSED = ()


def run_plan(plan):
    from dulwich.file import FileLocked
    from dulwich.refs import (DictRefsContainer, DiskRefsContainer,
                              SymrefLoop)
    global REFUSED
    REFUSED = _refused()
    backend = plan["kind"]
    filesy = backend in ("files", "namespaced")
    sim = Sim(seed=plan["seed"], sched={"policy": "sequential"},
              clock=plan["clock"], step_cap=5_000_000)
    viols = []
    stats = {}

    def viol(sig, detail):
        viols.append({"sig": "C16/" + sig, "detail": str(detail)[:900]})

    with util.Sandbox() as root:
        fs = simfs.FS(root, sim, {"shuffle_listdir": True})
        simfs.activate(fs)
        gitdir = os.path.join(root, "repo", ".git")
        R.makedirs(os.path.join(gitdir, "refs", "heads"))
        R.makedirs(os.path.join(gitdir, "refs", "tags"))
        m = Model()
        # initial state: HEAD -> refs/heads/a (unborn), some packed refs
        with open(os.path.join(gitdir, "HEAD"), "wb") as f:
            # HEAD is shared between the namespaces; what the view writes
            # into it names the target inside the namespace
            f.write(b"ref: refs/namespaces/ns/refs/heads/a\n"
                    if backend == "namespaced" else b"ref: refs/heads/a\n")
        m.d[HEAD] = SYM + A
        peeled = {}
        peel_of = {}  # value -> what the initial packed-refs says it peels to
        if plan["init_packed"] and backend == "files":
            lines = [b"# pack-refs with: peeled fully-peeled sorted \n"]
            for nm in sorted(plan["init_packed"]):
                v = plan["init_packed"][nm]
                lines.append(v.encode() + b" " + nm.encode() + b"\n")
                if plan["peeled"] and nm == T:
                    peeled[T] = val(9999)
                    peel_of[v] = peeled[T]
                    lines.append(b"^" + peeled[T].encode() + b"\n")
                m.d[nm] = v
            with open(os.path.join(gitdir, "packed-refs"), "wb") as f:
                f.write(b"".join(lines))
        if backend == "namespaced":
            # a ref of the enclosing repository: never seen nor touched
            # through the namespaced view
            with open(os.path.join(gitdir, OUTSIDE), "wb") as f:
                f.write(val(4242).encode() + b"\n")
        for p, _, _ in simfs.real_walk(gitdir):
            fs.touch_path(p)

        def mk():
            if backend == "files":
                return DiskRefsContainer(gitdir)
            if backend == "namespaced":
                from dulwich.refs import NamespacedRefsContainer
                return NamespacedRefsContainer(DiskRefsContainer(gitdir),
                                               b"ns")
            if backend == "dict":
                c = DictRefsContainer({})
                c.set_symbolic_ref(b"HEAD", A.encode())
                return c
            from dulwich.reftable import ReftableRefsContainer
            c = ReftableRefsContainer(gitdir)
            c.set_symbolic_ref(b"HEAD", A.encode())
            return c

        state = {"wrote": False, "since_pack": False}

        def body(a):
            handles = [mk(), mk() if filesy else None]
            hi = 0
            for si, op in enumerate(plan["ops"]):
                c = handles[hi]
                k = op["k"]
                before = dict(m.d)
                desc = f"step {si} {json.dumps(op)} handle {hi}"
                try:
                    _apply(op, c, m, desc, handles, hi, a)
                except _Switch as sw:
                    hi = sw.hi
                    if state["wrote"]:
                        stats["probe:handle_switch_after_write"] = 1
                    state["wrote"] = False
                    continue
                except _Reopen:
                    handles[hi] = mk()
                    continue
                if k in ("set", "cas", "add", "rm", "del", "symref", "import"):
                    if state["since_pack"] and m.d != before:
                        stats["probe:pack_between_writes"] = 1
                        state["since_pack"] = False
                    if m.d != before:
                        state["wrote"] = True
                if k == "pack":
                    state["since_pack"] = True
                # observable state through this handle and a fresh one
                _compare(c, m, desc, "same-handle", peeled)
                if backend == "namespaced":
                    _outside(m, desc)
                if filesy:
                    _compare(mk(), m, desc, "fresh-handle", peeled)
                    other = handles[1 - hi]
                    if other is not None and si % 3 == 0:
                        _compare(other, m, desc, "other-handle", peeled)
                if len({v["sig"] for v in viols} - {
                        "C16/allkeys-lists-absent-symref-target",
                        "C16/absent-ref-raises-KeyError",
                        "C16/invalid-name-accepted"}) > 3:
                    break

        class _Switch(Exception):
            def __init__(self, hi):
                self.hi = hi

        class _Reopen(Exception):
            pass

        def enc(v):
            return v.encode() if v is not None else None

        def cur_raw(name):
            return m.d.get(name)

        def _apply(op, c, m, desc, handles, hi, a):
            k = op["k"]
            if k == "advance":
                sim.clock.advance(op["ns"])
                return
            if k == "switch":
                raise _Switch(1 - hi)
            if k == "reopen":
                raise _Reopen()
            if k == "pack":
                try:
                    c.pack_refs(all=op["all"])
                except Exception as e:  # noqa: BLE001
                    viol(f"pack-refs-raised/{type(e).__name__}",
                         f"{desc}: {e!r}")
                return
            if k == "stale_lock":
                _stale(op, c, m, desc)
                return
            if k == "stale_dirs":
                nm = op["name"]
                pth = os.path.join(gitdir, nm)
                if nm not in m.d and not R.lexists(pth) and not any(
                        q.startswith(nm + "/") for q in m.d):
                    R.makedirs(os.path.join(pth, op["sub"]))
                    stats["probe:empty_dirs_at_ref_path"] = 1
                return
            if k == "badname":
                if backend == "namespaced" and "//" in op["name"]:
                    # below refs/namespaces/<ns>/ an empty path component is
                    # the one defect _check_refname deliberately tolerates
                    # (DeprecationWarning, dulwich 1.2.3 compatibility)
                    return
                try:
                    c[op["name"].encode()] = op["new"].encode()
                    viol("invalid-name-accepted", f"{desc}")
                    # take it out again so that the rest of the sequence is
                    # still comparable
                    try:
                        c.remove_if_equals(op["name"].encode(), None)
                    except Exception:  # noqa: BLE001
                        m.d[op["name"]] = op["new"]
                except REFUSED:
                    pass
                except Exception as e:  # noqa: BLE001
                    viol(f"odd-exception/badname/{type(e).__name__}",
                         f"{desc}: {e!r}")
                return
            if k == "read":
                _read(op["name"], c, m, desc)
                return
            if k == "import":
                want = dict(m.d)
                base = op["base"]
                refuse = False
                for sub, v in op["refs"].items():
                    nm = base + "/" + sub
                    want[nm] = v
                if op["prune"]:
                    for nm in list(want):
                        if nm.startswith(base + "/") and \
                                nm[len(base) + 1:] not in op["refs"]:
                            del want[nm]
                try:
                    c.import_refs(base.encode(),
                                  {kk.encode(): v.encode()
                                   for kk, v in op["refs"].items()},
                                  prune=op["prune"])
                    m.d = want
                except REFUSED as e:
                    viol(f"model-mismatch/import_refs/raised-{type(e).__name__}",
                         f"{desc}: {e!r}")
                return
            name = op["name"]
            nb = name.encode()
            chain, curv = m.follow(name)
            real = chain[-1]
            if curv == "LOOP" and k in ("set", "cas", "add"):
                # updating through a symref loop is unspecified: not exercised
                stats["skipped_write_through_loop"] = \
                    stats.get("skipped_write_through_loop", 0) + 1
                return
            if curv == "LOOP":
                real, curv = name, None
            if k == "set":
                expect_refuse = m.conflict(real)
                try:
                    c[nb] = op["new"].encode()
                    ok = True
                except REFUSED as e:
                    ok = False
                    err = e
                if expect_refuse:
                    if ok:
                        viol("df-conflict-accepted/set",
                             f"{desc}: {real} collides with an existing ref")
                        m.d[real] = op["new"]
                    else:
                        stats["probe:df_conflict_refused"] = 1
                elif ok:
                    m.d[real] = op["new"]
                else:
                    viol(f"model-mismatch/set/raised-{type(err).__name__}",
                         f"{desc}: unconditional write refused: {err!r}")
            elif k in ("cas", "add"):
                if k == "add":
                    cond = curv is None
                    call = lambda: c.add_if_new(nb, op["new"].encode())  # noqa
                else:
                    old = {"cur": curv or ZERO, "zero": ZERO,
                           "stale": val(777)}[op["old"]]
                    cond = (curv or ZERO) == old
                    call = lambda: c.set_if_equals(  # noqa: E731
                        nb, old.encode(), op["new"].encode())
                expect_refuse = cond and m.conflict(real)
                try:
                    res = call()
                    raised = None
                except REFUSED as e:
                    res = None
                    raised = e
                if raised is not None:
                    if expect_refuse:
                        stats["probe:df_conflict_refused"] = 1
                    elif not cond and m.conflict(real):
                        pass  # refused for the collision before the compare
                    else:
                        viol(f"model-mismatch/{k}/raised-"
                             f"{type(raised).__name__}",
                             f"{desc}: {raised!r}; model value {curv}")
                elif expect_refuse and res:
                    viol(f"df-conflict-accepted/{k}", f"{desc}")
                    m.d[real] = op["new"]
                elif expect_refuse:
                    # returning False is a refusal too
                    stats["probe:df_conflict_refused"] = 1
                elif bool(res) != cond and not expect_refuse:
                    viol(f"model-mismatch/{k}/returned-{res}",
                         f"{desc}: condition {'holds' if cond else 'fails'} "
                         f"(model value of {real}: {curv})")
                    if res:
                        m.d[real] = op["new"]
                elif res:
                    m.d[real] = op["new"]
            elif k in ("rm", "del"):
                raw = m.d.get(name)
                if k == "del":
                    cond = True
                    call = lambda: c.__delitem__(nb)  # noqa: E731
                else:
                    if op["old"] == "none":
                        cond = True
                        old = None
                    else:
                        old = {"cur": raw if raw and not raw.startswith(SYM)
                               else ZERO, "stale": val(778)}[op["old"]]
                        cond = (raw or ZERO) == old
                    call = lambda: c.remove_if_equals(  # noqa: E731
                        nb, enc(old))
                try:
                    res = call()
                    raised = None
                except REFUSED as e:
                    res = None
                    raised = e
                if raised is not None:
                    if m.conflict(name) and name not in m.d:
                        # deleting an absent name that collides with an
                        # existing ref: refusing it changes nothing
                        stats["probe:df_conflict_refused"] = 1
                    else:
                        viol(f"model-mismatch/{k}/raised-"
                             f"{type(raised).__name__}", f"{desc}: {raised!r}")
                elif k == "rm" and bool(res) != cond:
                    viol(f"model-mismatch/rm/returned-{res}",
                         f"{desc}: condition {'holds' if cond else 'fails'} "
                         f"(model raw value: {raw})")
                    if res:
                        m.d.pop(name, None)
                elif cond:
                    m.d.pop(name, None)
            elif k == "symref":
                try:
                    c.set_symbolic_ref(nb, op["target"].encode())
                    if m.conflict(name):
                        viol("df-conflict-accepted/symref",
                             f"{desc}: {name} collides with an existing ref")
                    m.d[name] = SYM + op["target"]
                except REFUSED as e:
                    if not m.conflict(name):
                        viol(f"model-mismatch/symref/raised-{type(e).__name__}",
                             f"{desc}: {e!r}")
                    else:
                        stats["probe:df_conflict_refused"] = 1

        def _stale(op, c, m, desc):
            from dulwich.file import FileLocked as FL
            nm = op["name"]
            lock = os.path.join(gitdir, nm + ".lock")
            R.makedirs(os.path.dirname(lock), exist_ok=True)
            with open(lock, "wb") as f:
                f.write(b"stale")
            before = dict(m.d)
            target = nm if nm != "packed-refs" else A
            try:
                if op["then"] == "set":
                    c[target.encode()] = op["new"].encode()
                elif op["then"] == "cas":
                    c.set_if_equals(target.encode(), None, op["new"].encode())
                elif op["then"] == "rm":
                    if target == HEAD:
                        target = A
                    c.remove_if_equals(target.encode(), None)
                elif op["then"] == "symref":
                    c.set_symbolic_ref(b"HEAD", B.encode())
                    target = HEAD
                else:
                    c.pack_refs(all=True)
                    target = None
                outcome = "ok"
            except FL:
                outcome = "locked"
                stats["probe:stale_lock_refused"] = 1
            except REFUSED as e:
                outcome = "refused:" + type(e).__name__
            finally:
                try:
                    R.unlink(lock)
                except OSError:
                    viol("stale-lock-removed", f"{desc}: somebody removed a "
                         f"lock file it did not own")
            if outcome == "ok":
                # the lock was not in the way of this operation: model it
                if op["then"] in ("set", "cas") and target:
                    chain, curv = m.follow(target)
                    real = chain[-1] if curv != "LOOP" else target
                    if not m.conflict(real):
                        m.d[real] = op["new"]
                elif op["then"] == "rm" and target:
                    m.d.pop(target, None)
                elif op["then"] == "symref":
                    m.d[HEAD] = SYM + B
                if nm != "packed-refs" and target in (nm,) and \
                        op["then"] != "pack":
                    # writing a ref whose lock exists must not succeed
                    chain, _ = m.follow(nm)
                    if chain[-1] == nm or op["then"] == "rm":
                        viol(f"lock-ignored/{op['then']}",
                             f"{desc}: operation succeeded although "
                             f"{nm}.lock existed")

        def _outside(m, desc):
            """What the enclosing repository sees: its own ref untouched, and
            every ref of the view under refs/namespaces/ns/ (HEAD is shared)."""
            u = DiskRefsContainer(gitdir)
            pre = "refs/namespaces/ns/"
            try:
                if u.read_ref(OUTSIDE.encode()) != val(4242).encode():
                    viol("namespace-leak/outside-ref-changed",
                         f"{desc}: {OUTSIDE} = {u.read_ref(OUTSIDE.encode())}")
                want = {OUTSIDE: val(4242)}
                for nm, v in m.d.items():
                    if v.startswith(SYM):
                        v = SYM + pre + v[len(SYM):]
                    want[nm if nm == HEAD else pre + nm] = v
                got = {}
                for k in u.allkeys():
                    rv = u.read_ref(k)
                    got[k.decode()] = rv.decode() if rv is not None else None
                if got != want:
                    viol("namespace-leak/underlying-refs-differ",
                         f"{desc}: got-not-want "
                         f"{sorted(set(got.items()) - set(want.items()))[:3]} "
                         f"want-not-got "
                         f"{sorted(set(want.items()) - set(got.items()))[:3]}")
            except Exception as e:  # noqa: BLE001
                viol(f"namespace-leak/underlying-unreadable/"
                     f"{type(e).__name__}", f"{desc}: {e!r}")

        def _read(name, c, m, desc):
            from dulwich.refs import SymrefLoop as SL
            nb = name.encode()
            chain, want = m.follow(name)
            try:
                got = c[nb].decode()
            except SL:
                got = "LOOP"
            except KeyError:
                got = None
            except Exception as e:  # noqa: BLE001
                got = "EXC:" + type(e).__name__
            if got != want and not (want == "LOOP" and got is None):
                viol("model-mismatch/get", f"{desc}: refs[{name}] = {got}, "
                     f"model {want}")
            try:
                raw = c.read_ref(nb)
                raw = raw.decode() if raw is not None else None
            except Exception as e:  # noqa: BLE001
                raw = "EXC:" + type(e).__name__
            try:
                has = nb in c
            except Exception as e:  # noqa: BLE001
                has = "EXC:" + type(e).__name__
            if backend == "reftable" and m.d.get(name) is None and \
                    "EXC:KeyError" in (raw, has):
                # specific, recorded divergence; keep checking the rest
                viol("absent-ref-raises-KeyError",
                     f"{desc}: read_ref({name}) = {raw}, {name} in refs = "
                     f"{has}; the contract says None / False")
                return
            if raw != m.d.get(name):
                viol("model-mismatch/read_ref", f"{desc}: read_ref({name}) = "
                     f"{raw}, model {m.d.get(name)}")
            if has != (m.d.get(name) is not None):
                viol("model-mismatch/contains", f"{desc}: {name} in refs = "
                     f"{has}, model {m.d.get(name)}")

        def _compare(c, m, desc, who, peeled):
            from dulwich.refs import SymrefLoop as SL
            try:
                keys = {k.decode() for k in c.allkeys()}
            except Exception as e:  # noqa: BLE001
                viol(f"allkeys-raised/{who}/{type(e).__name__}",
                     f"{desc}: {e!r}")
                return
            want_keys = set(m.d)
            if backend == "reftable" and keys != want_keys:
                implicit = {v[len(SYM):] for v in m.d.values()
                            if v.startswith(SYM)} - want_keys
                if keys - want_keys and keys - want_keys <= implicit:
                    # specific, recorded divergence; keep checking the rest
                    viol("allkeys-lists-absent-symref-target",
                         f"{desc}: allkeys() contains "
                         f"{sorted(keys - want_keys)}, which only exist as "
                         f"the target of a symbolic ref")
                    keys -= implicit
            if keys != want_keys:
                extra = sorted(keys - want_keys)
                missing = sorted(want_keys - keys)
                cls = "ref-resurrected" if extra else "ref-lost"
                viol(f"model-mismatch/allkeys/{cls}/{who}",
                     f"{desc}: extra {extra} missing {missing}")
                return
            for nm in sorted(want_keys):
                try:
                    raw = c.read_ref(nm.encode())
                    raw = raw.decode() if raw is not None else None
                except Exception as e:  # noqa: BLE001
                    raw = "EXC:" + type(e).__name__
                if raw != m.d[nm]:
                    viol(f"model-mismatch/value/{who}",
                         f"{desc}: {nm} = {raw}, model {m.d[nm]}")
                    return
            try:
                d = {k.decode(): v.decode() for k, v in c.as_dict().items()}
            except Exception as e:  # noqa: BLE001
                viol(f"as_dict-raised/{who}/{type(e).__name__}",
                     f"{desc}: {e!r}")
                return
            want = {}
            for nm in m.d:
                v = m.resolve(nm)
                if v is not None and v != "LOOP":
                    want[nm] = v
            if d != want:
                viol(f"model-mismatch/as_dict/{who}",
                     f"{desc}: got-not-want "
                     f"{sorted(set(d.items()) - set(want.items()))[:3]} "
                     f"want-not-got "
                     f"{sorted(set(want.items()) - set(d.items()))[:3]}")
                return
            try:
                sy = {k.decode(): v.decode()
                      for k, v in c.get_symrefs().items()}
            except Exception as e:  # noqa: BLE001
                if backend == "reftable" and isinstance(e, KeyError) and any(
                        v.startswith(SYM) and v[len(SYM):] not in m.d
                        for v in m.d.values()):
                    # consequence of the two recorded reftable divergences
                    # (implicit keys + KeyError for absent refs)
                    return
                viol(f"get_symrefs-raised/{who}/{type(e).__name__}",
                     f"{desc}: {e!r}")
                return
            wsy = {k: v[len(SYM):] for k, v in m.d.items()
                   if v.startswith(SYM)}
            if sy != wsy:
                viol(f"model-mismatch/get_symrefs/{who}",
                     f"{desc}: {sy} vs {wsy}")
            try:
                sub = {k.decode() for k in c.keys(b"refs/heads")}
            except Exception as e:  # noqa: BLE001
                viol(f"keys-raised/{who}/{type(e).__name__}", f"{desc}: {e!r}")
                return
            wsub = {k[len("refs/heads/"):] for k in m.d
                    if k.startswith("refs/heads/")}
            if sub != wsub:
                viol(f"model-mismatch/keys-base/{who}",
                     f"{desc}: {sorted(sub)} vs {sorted(wsub)}")
            # a base is a path prefix, not a string prefix: refs/heads/c2 is
            # not under refs/heads/c, refs/remotes/o2/x not under .../o
            for base in (C_, "refs/remotes/o", A):
                try:
                    sub = {k.decode() for k in c.keys(base.encode())}
                except Exception as e:  # noqa: BLE001
                    viol(f"keys-raised/{who}/{type(e).__name__}",
                         f"{desc}: keys({base}): {e!r}")
                    return
                wsub = {k[len(base) + 1:] for k in m.d
                        if k.startswith(base + "/")}
                if sub != wsub:
                    viol(f"model-mismatch/keys-base-prefix/{who}",
                         f"{desc}: keys({base}) = {sorted(sub)}, model "
                         f"{sorted(wsub)}")
                    break
            if any(nm in m.d and os.path.lexists(os.path.join(
                    gitdir, nm)) for nm in plan["init_packed"]):
                stats["probe:loose_over_packed"] = 1
            # get_peeled(): None (nothing on record), the value itself (known
            # not to be a tag) or what was recorded for *this* value -- never
            # what was recorded for a value the ref has moved away from
            if backend == "files":
                for nm in sorted(want_keys):
                    cur = m.d[nm]
                    if cur.startswith(SYM):
                        continue
                    try:
                        pv = c.get_peeled(nm.encode())
                    except Exception as e:  # noqa: BLE001
                        viol(f"get_peeled-raised/{who}/{type(e).__name__}",
                             f"{desc}: {nm}: {e!r}")
                        return
                    pv = pv.decode() if pv is not None else None
                    ok = {None, cur}
                    if peel_of.get(cur):
                        ok.add(peel_of[cur])
                        stats["probe:peeled_line_on_record"] = 1
                    if pv not in ok:
                        viol(f"model-mismatch/peeled/{who}",
                             f"{desc}: get_peeled({nm}) = {pv}, the ref "
                             f"holds {cur}"
                             f"{' which peels to ' + peel_of[cur] if peel_of.get(cur) else ''}")
                        return

        act = sim.run_inline("main", body)
        gc.collect()
        if act.exc is not None:
            viol(f"harness-or-unexpected-exception/{type(act.exc).__name__}",
                 repr(act.exc))
        if filesy:
            left = [p for p in util.snapshot(gitdir) if p.endswith(".lock")]
            if left:
                viol("lock-left-behind", f"{left}")
        simfs.deactivate()
    seen = set()
    out = []
    for v in viols:
        sig = v["sig"] + "/" + backend
        if sig not in seen:
            seen.add(sig)
            out.append({"sig": sig, "detail": v["detail"]})
    stats["sim_ns"] = max(0, sim.clock.advanced)
    stats["backend:" + backend] = 1
    stats["policy:sequential"] = 1
    kinds = [o["k"] for o in plan["ops"]]
    nontrivial = False
    wrote = False
    mid = False
    for k in kinds:
        if k in ("set", "cas", "add", "rm", "del", "symref", "import"):
            if wrote and mid:
                nontrivial = True
            wrote = True
        elif k in ("pack", "switch", "reopen") and wrote:
            mid = True
    ih = util.h8([plan["ops"], plan["clock"], plan["init_packed"], backend])
    return {"violations": out, "digest": util.h8([sim.digest(), [v["sig"]
                                                                for v in out]]),
            "ihash": ih, "nontrivial": nontrivial, "trace": None,
            "stats": stats, "events": sim.events,
            "sample": {"plan": plan}}


def shrink(plan):
    def cp():
        return json.loads(json.dumps(plan))
    ops = plan["ops"]
    n = len(ops)
    size = n // 2
    while size >= 1:
        for s in range(0, n, size):
            if len(ops) - min(size, n - s) >= 1:
                p = cp()
                del p["ops"][s:s + size]
                yield p
        size //= 2
    for nm in list(plan["init_packed"]):
        p = cp()
        del p["init_packed"][nm]
        yield p
    if plan["peeled"]:
        p = cp()
        p["peeled"] = False
        yield p
    if plan["clock"]["gran_ns"] != 1:
        p = cp()
        p["clock"]["gran_ns"] = 1
        yield p
