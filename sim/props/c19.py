"""C19 -- pkt-line and side-band framing round-trips under any read chunking.

The seam is the raw stream under Protocol / ReceivableProtocol /
PktLineParser: the simulator owns how the byte stream is partitioned into
read()/recv() results and where it ends (EOF or reset).
"""

from __future__ import annotations

import io
import itertools
import json
import random

from .. import util
from ..kernel import derive_seed
from ..simnet import ChunkedStream, StreamSpin, buffered_read

PROP_ID = "C19"
LEVEL = "exploration"
RULE = ("seeded plans of kinds {roundtrip, exhaustive-partitions (streams "
        "<= 13 bytes, all 2^(n-1) partitions), truncate (every cut offset), "
        "garbage (random and structured byte strings), prefix (the 65536 "
        "four-hex-digit prefixes plus non-hex, sharded), sideband, caps, "
        "mixed pkt-line+pack}. Each evaluation = one (stream, partition, "
        "decoder) triple; distinct by hash of (stream hash, partition, "
        "decoder); non-trivial when the partition splits at least one frame "
        "or the stream is malformed/truncated.")
ASSUMPTIONS = [
    "transports are reliable ordered byte streams: only fragmentation, EOF "
    "and reset are injected (no loss/duplication/reordering inside a stream)",
    "the reference encoder/decoder in this module is independent of "
    "dulwich.protocol",
    "PktLineParser is not fed delimiter packets (it is the v0/v1 HTTP body "
    "parser and rejects them with GitProtocolError, which the property allows)",
]
COMPONENTS = {
    "real": ["dulwich.protocol.Protocol / ReceivableProtocol / PktLineParser "
             "/ BufferedPktLineWriter / pkt_line / write_sideband / "
             "extract_capabilities / format_ref_line",
             "dulwich.client._read_side_band64k_data",
             "dulwich.pack.PackStreamReader", "io.BufferedReader"],
    "stub": ["socket / pipe (ChunkedStream decides every read size, EOF, "
             "reset)"],
}
PROBES = {"frame_split_across_reads": 1, "eof_inside_frame": 1,
          "reset_seen": 1, "oversize_payload": 1}
MIN_BUDGET = 200

MAXPAY = 65516


FAULT_COUNTERS = {
    "probe:eof_inside_frame": "stream EOF inside a frame",
    "probe:reset_seen": "connection reset mid-stream",
    "probe:frame_split_across_reads": "short read (frame split across reads)",
}


def budget(tier):
    return 4000 if tier == "quick" else 300000


# ---------------------------------------------------- reference codec
def ref_encode(frames):
    out = bytearray()
    for f in frames:
        if f is None:
            out += b"0000"
        elif f == "delim":
            out += b"0001"
        else:
            out += b"%04x" % (len(f) + 4) + f
    return bytes(out)


HEX = b"0123456789abcdefABCDEF"


def ref_decode(data):
    """-> (frames, ending) with ending in clean-eof | bad-prefix | truncated
    | bad-length."""
    frames = []
    pos = 0
    n = len(data)
    while True:
        if pos == n:
            return frames, "clean-eof"
        if n - pos < 4:
            return frames, "truncated"
        pre = data[pos:pos + 4]
        if any(c not in HEX for c in pre):
            return frames, "bad-prefix"
        ln = int(pre, 16)
        if ln in (0, 1):
            frames.append(None)
            pos += 4
            continue
        if ln < 4:
            return frames, "bad-length"
        if n - pos < ln:
            return frames, "truncated"
        frames.append(data[pos + 4:pos + ln])
        pos += ln


def walk_frames(data):
    """Independent well-formedness check of an emitted stream."""
    pos = 0
    while pos < len(data):
        pre = data[pos:pos + 4]
        if len(pre) < 4 or any(c not in HEX for c in pre):
            return f"bad prefix {pre!r} at {pos}"
        ln = int(pre, 16)
        if ln in (0, 1, 2):
            pos += 4
            continue
        if ln < 4 or ln > 65520:
            return f"bad length {ln} at {pos}"
        if pos + ln > len(data):
            return f"frame at {pos} runs past the end"
        pos += ln
    return None


# ---------------------------------------------------------- plan gen
SIZES = [0, 1, 2, 3, 5, 17, 100, 1000, 4095, 8192, 65515, 65516]


def payload(i, n, salt=0):
    r = random.Random(i * 7919 + n * 31 + salt)
    if n <= 64:
        return bytes(r.randrange(256) for _ in range(n))
    unit = bytes(r.randrange(256) for _ in range(61))
    return (unit * (n // 61 + 1))[:n]


def gen_plan(seed, tier):
    rng = random.Random(derive_seed(seed, "c19plan"))
    m = seed % 40
    if m == 0:
        return {"kind": "exhaustive", "seed": seed,
                "frames": _small_frames(rng)}
    if m == 1:
        return {"kind": "prefix", "seed": seed, "shard": (seed // 40) % 64}
    if m in (2, 3):
        return {"kind": "sideband", "seed": seed,
                "blobs": [[rng.choice([1, 2, 3]),
                           rng.choice([0, 1, 10, 999, 65514, 65515, 65516,
                                       70000, 131031])]
                          for _ in range(rng.randint(1, 4))],
                "cut": _cutspec(rng)}
    if m == 4:
        return {"kind": "caps", "seed": seed}
    if m in (5, 6):
        return {"kind": "mixed", "seed": seed, "cut": _cutspec(rng),
                "nobj": rng.randint(1, 5), "lines": rng.randint(0, 3),
                "rbufsize": rng.choice([1, 7, 64, 8192])}
    if m == 23:
        # a report-status stream (pkt-lines) carried on side-band channel 1
        # in frames cut anywhere, interleaved with progress frames
        return {"kind": "nested", "seed": seed,
                "refs": rng.choice([1, 2, 5, 40]),
                "longnames": rng.random() < 0.3,
                "frame": rng.choice([1, 2, 3, 7, 10, 50, 999, 65515]),
                "cut": _cutspec(rng)}
    if m in (7, 8, 9, 10):
        return {"kind": "oversize", "seed": seed,
                "size": rng.choice([65516, 65517, 65519, 65520, 65521,
                                    70000, 131072]),
                "via": rng.choice(["pkt_line", "write_pkt_line", "buffered",
                                   "pkt_seq"])}
    if m in (11, 12, 13, 14, 15, 16):
        return {"kind": "garbage", "seed": seed, "cut": _cutspec(rng),
                "end": rng.choice(["eof", "eof", "reset"]),
                "shape": rng.choice(["random", "mutated", "mutated",
                                     "prefixes", "lengths"])}
    if m in (17, 18, 19, 20, 21, 22):
        return {"kind": "truncate", "seed": seed, "frames": _frames(rng, 4),
                "cut": _cutspec(rng), "end": rng.choice(["eof", "reset"])}
    return {"kind": "roundtrip", "seed": seed, "frames": _frames(rng, 8),
            "cut": _cutspec(rng), "wbuf": rng.choice([1, 10, 100, 65515]),
            "rbufsize": rng.choice([1, 5, 64, 8192])}


def _small_frames(rng):
    # total encoded length <= 13 bytes
    choices = [[0], [1], [2], [None], ["delim"], [0, None], [None, 1],
               [1, None], [3], [None, None, None], [5], [None, 0, None],
               ["delim", None], [0, 0], [1, 0]]
    return rng.choice(choices)


def _frames(rng, maxn):
    out = []
    for _ in range(rng.randint(1, maxn)):
        r = rng.random()
        if r < 0.2:
            out.append(None)
        elif r < 0.25:
            out.append("delim")
        elif r < 0.9:
            out.append(rng.choice(SIZES[:9]))
        else:
            out.append(rng.choice(SIZES))
    return out


def _cutspec(rng):
    return {"mode": rng.choice(["ones", "small", "small", "mixed", "mixed",
                                "large", "whole", "frames"]),
            "seed": rng.randrange(10**6)}


def make_cuts(spec, n, frame_bounds=None):
    r = random.Random(spec["seed"])
    mode = spec["mode"]
    if "explicit" in spec:
        return list(spec["explicit"])
    if mode == "whole":
        return []
    if mode == "ones":
        return [1] * min(n, 70000)
    cuts = []
    tot = 0
    while tot < n and len(cuts) < 70000:
        if mode == "small":
            k = r.randint(1, 7)
        elif mode == "large":
            k = r.randint(1000, 70000)
        elif mode == "frames" and frame_bounds:
            # cut exactly at, one before, or one after frame boundaries
            nxt = [b for b in frame_bounds if b > tot]
            k = (nxt[0] - tot + r.choice([0, 0, -1, 1, 4, -4])) if nxt else n
            k = max(1, k)
        else:
            k = r.choice([1, 2, 3, 4, 5, 100, 4096, 65536])
        cuts.append(k)
        tot += k
    return cuts


def materialise(frames):
    out = []
    for i, f in enumerate(frames):
        if f is None or f == "delim":
            out.append(f)
        else:
            out.append(payload(i, f))
    return out


# -------------------------------------------------------------- decoders
def _proto_errors():
    from dulwich.errors import GitProtocolError, HangupException
    return GitProtocolError, HangupException


def dec_protocol(stream):
    from dulwich.protocol import Protocol
    p = Protocol(buffered_read(stream), lambda b: None)
    return _drain(p)


def dec_receivable(stream, rbufsize=8192):
    from dulwich.protocol import ReceivableProtocol
    p = ReceivableProtocol(stream.recv, lambda b: None, rbufsize=rbufsize)
    return _drain(p)


def _drain(p):
    GPE, HUP = _proto_errors()
    frames = []
    for _ in range(200000):
        try:
            frames.append(p.read_pkt_line())
        except HUP:
            return frames, "hangup"
        except GPE as e:
            return frames, "protocol-error"
        except StreamSpin:
            return frames, "SPIN"
        except BaseException as e:  # noqa: BLE001
            return frames, "EXC:" + type(e).__name__ + ":" + str(e)[:80]
    return frames, "SPIN"


def _drain_pushback(p, rng):
    """Like _drain, but probing eof() between frames and pushing frames back
    (unread_pkt_line) before reading them again, as the stateless-rpc server
    and the client's version negotiation do."""
    GPE, HUP = _proto_errors()
    frames = []
    for _ in range(200000):
        try:
            if rng.random() < 0.4:
                if p.eof():
                    return frames, "hangup"
            f = p.read_pkt_line()
            if rng.random() < 0.35:
                p.unread_pkt_line(f)
                if rng.random() < 0.5 and p.eof():
                    return frames, "EXC:eof-after-unread:"
                g = p.read_pkt_line()
                if g != f:
                    return frames, "EXC:reread-differs:"
            frames.append(f)
        except HUP:
            return frames, "hangup"
        except GPE:
            return frames, "protocol-error"
        except StreamSpin:
            return frames, "SPIN"
        except BaseException as e:  # noqa: BLE001
            return frames, "EXC:" + type(e).__name__ + ":" + str(e)[:80]
    return frames, "SPIN"


def dec_parser(stream):
    from dulwich.protocol import PktLineParser
    GPE, HUP = _proto_errors()
    frames = []
    parser = PktLineParser(frames.append)
    for _ in range(400000):
        try:
            chunk = stream.recv(65536)
        except ConnectionResetError:
            return frames, "hangup", parser.get_tail()
        except StreamSpin:
            return frames, "SPIN", b""
        if not chunk:
            return frames, "eof", parser.get_tail()
        try:
            parser.parse(chunk)
        except GPE:
            return frames, "protocol-error", b""
        except BaseException as e:  # noqa: BLE001
            return frames, "EXC:" + type(e).__name__ + ":" + str(e)[:80], b""
    return frames, "SPIN", b""


def norm(frames):
    return [None if f == "delim" else f for f in frames]


class Ctx:
    def __init__(self):
        self.viols = []
        self.cases = []
        self.stats = {}

    def v(self, sig, detail):
        self.viols.append({"sig": "C19/" + sig, "detail": str(detail)[:800]})

    def case(self, key, nontrivial):
        self.cases.append((util.h8(key), bool(nontrivial)))

    def stat(self, k, n=1):
        self.stats[k] = self.stats.get(k, 0) + n


def check_decode(ctx, data, cuts, end, tag, rbufsize=8192, expect=None,
                 with_parser=True):
    """Feed ``data`` under the partition to every decoder and compare with
    the reference decoder."""
    want, ending = ref_decode(data)
    if expect is not None and norm(expect) != want:
        ctx.v(f"harness/reference-decoder-disagrees/{tag}", "")
        return
    split = False
    # does the partition split a frame?
    tot = 0
    bounds = set()
    pos = 0
    for f in want:
        pos += 4 if f is None else 4 + len(f)
        bounds.add(pos)
    for c in cuts:
        tot += c
        if tot < len(data) and tot not in bounds:
            split = True
            break
    if split:
        ctx.stat("probe:frame_split_across_reads")
    if ending == "truncated":
        ctx.stat("probe:eof_inside_frame")
    dh = util.h8(data)
    ch = util.h8(cuts[:200])
    for name, fn in (("Protocol", dec_protocol),
                     ("ReceivableProtocol",
                      lambda s: dec_receivable(s, rbufsize))):
        st = ChunkedStream(data, cuts, end)
        frames, how = fn(st)
        ctx.case([dh, ch, end, name, rbufsize], split or ending != "clean-eof")
        _judge(ctx, name, tag, frames, how, want, ending, end, data, cuts)
        if end == "reset" and how == "hangup":
            ctx.stat("probe:reset_seen")
    # smart HTTP: the request body reaches the decoder through
    # dulwich.web's Content-Length limiter over wsgi.input, which may return
    # short reads too; what follows the body must never be read
    if end == "eof":
        from dulwich.web import _LengthLimitedFile
        st = ChunkedStream(data + b"NEXT-REQUEST", cuts, end)
        lim = _LengthLimitedFile(st, len(data))
        frames, how = dec_receivable(
            type("S", (), {"recv": staticmethod(lim.read)})(), rbufsize)
        ctx.case([dh, ch, end, "LengthLimited", rbufsize],
                 split or ending != "clean-eof")
        _judge(ctx, "LengthLimitedFile", tag, frames, how, want, ending, end,
               data, cuts)
    # smart HTTP with Transfer-Encoding: chunked: the same bytes, cut into
    # HTTP chunks where the simulator cut the stream (so chunks end in LF, CR,
    # hex digits, anything), reach the decoder through dulwich.web.ChunkReader
    if end == "eof" and len(data) < 200000:
        from dulwich.web import ChunkReader
        enc = []
        pos = 0
        for c in cuts:
            if c <= 0 or pos >= len(data):
                continue
            piece = data[pos:pos + c]
            pos += len(piece)
            enc.append(b"%x\r\n" % len(piece) + piece + b"\r\n")
        if pos < len(data):
            enc.append(b"%x\r\n" % (len(data) - pos) + data[pos:] + b"\r\n")
        enc.append(b"0\r\n\r\n")
        cr = ChunkReader(io.BytesIO(b"".join(enc)))
        frames, how = dec_receivable(
            type("S", (), {"recv": staticmethod(cr.read)})(), rbufsize)
        ctx.case([dh, ch, end, "Chunked", rbufsize],
                 split or ending != "clean-eof")
        _judge(ctx, "ChunkReader", tag, frames, how, want, ending, end,
               data, cuts)
        # ... and with a wsgi.input whose read(n) may return fewer bytes
        # than asked for (the simulator's cuts, now over the encoded body)
        if len(data) < 20000:
            body = b"".join(enc)
            src = ChunkedStream(body, cuts, end)

            class _In:
                def read(self, n=-1):
                    return src.recv(n if n >= 0 else len(body))

                def readline(self):
                    out = b""
                    while not out.endswith(b"\n"):
                        c = src.recv(1)
                        if not c:
                            break
                        out += c
                    return out
            cr = ChunkReader(_In())
            frames, how = dec_receivable(
                type("S", (), {"recv": staticmethod(cr.read)})(), rbufsize)
            ctx.case([dh, ch, end, "ChunkedShort", rbufsize],
                     split or ending != "clean-eof")
            _judge(ctx, "ChunkReader-short-reads", tag, frames, how, want,
                   ending, end, data, cuts)
    # the side-band demultiplexer over the same bytes: (channel, data) per
    # frame up to the first flush; a frame without a band byte is a protocol
    # error, never another exception
    if len(data) < 5000:
        from dulwich.client import _read_side_band64k_data
        from dulwich.protocol import Protocol
        GPE, HUP = _proto_errors()
        st = ChunkedStream(data, cuts, end)
        pr = Protocol(buffered_read(st), lambda b: None)
        got_sb = []
        how = "flush"
        try:
            for chn, dat in _read_side_band64k_data(pr.read_pkt_seq()):
                got_sb.append((chn, dat))
        except HUP:
            how = "hangup"
        except GPE:
            how = "protocol-error"
        except StreamSpin:
            how = "SPIN"
        except BaseException as e:  # noqa: BLE001
            how = "EXC:" + type(e).__name__
        ctx.case([dh, ch, end, "sideband-demux"], split)
        want_sb = []
        for f in want:
            if f is None or f == b"":
                break
            want_sb.append((f[0], f[1:]))
        if how.startswith("EXC") or how == "SPIN":
            ctx.v(f"wrong-exception/sideband-demux/{tag}/{how}",
                  f"data={data[:60]!r} cuts={cuts[:20]}")
        elif got_sb != want_sb[:len(got_sb)] or len(got_sb) > len(want_sb):
            ctx.v(f"roundtrip-mismatch/sideband-demux/{tag}",
                  f"got {got_sb[:4]} want {want_sb[:4]} ({how}); "
                  f"data={data[:60]!r}")
    if with_parser and b"0001" not in data[:0] and \
            not _has_delim(data, want):
        st = ChunkedStream(data, cuts, end)
        frames, how, tail = dec_parser(st)
        ctx.case([dh, ch, end, "PktLineParser"], split or ending != "clean-eof")
        if how.startswith("EXC") or how == "SPIN":
            ctx.v(f"{'hang' if how == 'SPIN' else 'wrong-exception'}/"
                  f"PktLineParser/{tag}/{how.split(':')[1] if ':' in how else ''}",
                  f"{how} data={data[:60]!r} cuts={cuts[:20]}")
        elif frames != want[:len(frames)] or (
                ending == "clean-eof" and how != "protocol-error" and
                (frames != want or tail)):
            ctx.v(f"roundtrip-mismatch/PktLineParser/{tag}",
                  f"got {len(frames)} frames ({how}, tail {tail[:20]!r}), "
                  f"want {len(want)} ({ending}); data={data[:60]!r} "
                  f"cuts={cuts[:20]}")
        elif len(frames) > len(want):
            ctx.v(f"phantom-frame-after-eof/PktLineParser/{tag}", "")


def _has_delim(data, want):
    # reference-decode again looking for 0001 frames
    pos = 0
    n = len(data)
    while pos + 4 <= n:
        pre = data[pos:pos + 4]
        if any(c not in HEX for c in pre):
            return False
        ln = int(pre, 16)
        if ln == 1:
            return True
        if ln == 0:
            pos += 4
        elif ln < 4 or pos + ln > n:
            return False
        else:
            pos += ln
    return False


def _judge(ctx, name, tag, frames, how, want, ending, end, data, cuts):
    if how == "SPIN":
        ctx.v(f"hang/{name}/{tag}",
              f"decoder kept reading after the end; data={data[:60]!r} "
              f"cuts={cuts[:20]}")
        return
    if how.startswith("EXC"):
        ctx.v(f"wrong-exception/{name}/{tag}/{how.split(':')[1]}",
              f"{how}; data={data[:60]!r} len={len(data)} cuts={cuts[:20]}")
        return
    if frames != want[:len(frames)] or len(frames) > len(want):
        cls = "phantom-frame-after-eof" if len(frames) > len(want) or \
            ending == "truncated" else "roundtrip-mismatch"
        ctx.v(f"{cls}/{name}/{tag}",
              f"got {[f if f is None else (len(f), f[:12]) for f in frames[:6]]} "
              f"want {[f if f is None else (len(f), f[:12]) for f in want[:6]]} "
              f"({ending}); data={data[:60]!r} cuts={cuts[:20]}")
        return
    if len(frames) < len(want):
        ctx.v(f"roundtrip-mismatch/{name}/{tag}",
              f"stopped after {len(frames)} of {len(want)} frames with "
              f"{how}; data={data[:60]!r} cuts={cuts[:20]}")
        return
    if ending == "clean-eof" and how != "hangup":
        ctx.v(f"wrong-exception/{name}/{tag}/clean-eof-gave-{how}",
              f"data={data[:60]!r} cuts={cuts[:20]}")


# ------------------------------------------------------------- runners
def run_roundtrip(plan, ctx):
    from dulwich.protocol import (BufferedPktLineWriter, Protocol, pkt_line,
                                  pkt_seq)
    frames = materialise(plan["frames"])
    ref = ref_encode(frames)
    # encoders (delim has no public encoder: reference bytes are used)
    enc = bytearray()
    for f in frames:
        enc += b"0001" if f == "delim" else pkt_line(f)
    if bytes(enc) != ref:
        ctx.v("roundtrip-mismatch/pkt_line-encoding", "")
    out = []
    p = Protocol(lambda n: b"", out.append)
    for f in frames:
        if f == "delim":
            out.append(b"0001")
        else:
            p.write_pkt_line(f)
    if b"".join(out) != ref:
        ctx.v("roundtrip-mismatch/write_pkt_line-encoding", "")
    if all(f is not None and f != "delim" for f in frames):
        out = []
        w = BufferedPktLineWriter(out.append, bufsize=plan["wbuf"])
        for f in frames:
            w.write(f)
        w.flush()
        if b"".join(out) != ref:
            ctx.v("roundtrip-mismatch/BufferedPktLineWriter-encoding",
                  f"bufsize={plan['wbuf']}")
        if pkt_seq(*frames) != ref + b"0000":
            ctx.v("roundtrip-mismatch/pkt_seq-encoding", "")
    bounds = []
    pos = 0
    for f in frames:
        pos += 4 if (f is None or f == "delim") else 4 + len(f)
        bounds.append(pos)
    cuts = make_cuts(plan["cut"], len(ref), bounds)
    check_decode(ctx, ref, cuts, "eof", "roundtrip",
                 rbufsize=plan.get("rbufsize", 8192), expect=frames)
    # the same stream read with eof() probes and push-backs in between
    from dulwich.protocol import ReceivableProtocol
    prng = random.Random(derive_seed(plan["seed"], "c19pushback"))
    want_n = norm(frames)
    for name, mk in (
            ("Protocol", lambda s: Protocol(buffered_read(s),
                                            lambda b: None)),
            ("ReceivableProtocol", lambda s: ReceivableProtocol(
                s.recv, lambda b: None, rbufsize=plan.get("rbufsize", 8192)))):
        st = ChunkedStream(ref, cuts)
        got, how = _drain_pushback(mk(st), prng)
        ctx.stat("probe:pushback_decode")
        if how != "hangup" or got != want_n:
            ctx.v(f"roundtrip-mismatch/{name}/pushback" +
                  (f"/{how.split(':')[1]}" if how.startswith("EXC") else ""),
                  f"{how}: got {len(got)} of {len(want_n)} frames "
                  f"{[f if f is None else len(f) for f in got[:8]]} want "
                  f"{[f if f is None else len(f) for f in want_n[:8]]}")
    # read_pkt_seq: sequences are delimited by flush packets
    st = ChunkedStream(ref + b"0000", cuts)
    p = Protocol(buffered_read(st), lambda b: None)
    got = []
    want = []
    cur = []
    for f in norm(frames) + [None]:
        if f is None:
            want.append(cur)
            cur = []
        else:
            cur.append(f)
    try:
        for _ in range(len(want)):
            got.append(list(p.read_pkt_seq()))
    except BaseException as e:  # noqa: BLE001
        ctx.v(f"wrong-exception/read_pkt_seq/{type(e).__name__}", repr(e))
        return
    if got != want:
        empty = any(isinstance(f, bytes) and not f for f in frames)
        ctx.v("roundtrip-mismatch/read_pkt_seq" +
              ("/empty-payload-ends-sequence" if empty else ""),
              f"got {[[len(x) for x in s] for s in got]} want "
              f"{[[len(x) for x in s] for s in want]}")


def run_nested(plan, ctx):
    """Decoder under test: GitClient._handle_receive_pack_tail (side-band
    demultiplexing + a pkt-line parser that must keep its state from one
    frame to the next)."""
    from dulwich.client import ReportStatusParser, TraditionalGitClient
    from dulwich.protocol import Protocol
    rng = random.Random(derive_seed(plan["seed"], "c19nested"))
    want = {}
    lines = [b"unpack ok\n"]
    for i in range(plan["refs"]):
        name = b"refs/heads/" + (b"n%d" % i if not plan["longnames"] else
                                 b"long-" + b"x" * rng.randint(50, 200) +
                                 b"-%d" % i)
        if rng.random() < 0.3:
            lines.append(b"ng " + name + b" some reason %d\n" % i)
            want[name] = "some reason %d" % i
        else:
            lines.append(b"ok " + name + b"\n")
            want[name] = None
    inner = ref_encode(lines + [None])
    # channel-1 frames of at most plan["frame"] payload bytes, cut anywhere
    frames = []
    pos = 0
    while pos < len(inner):
        k = rng.randint(1, plan["frame"])
        frames.append(b"\x01" + inner[pos:pos + k])
        pos += k
        if rng.random() < 0.2:
            frames.append(b"\x02progress %d\n" % pos)
    outer = ref_encode(frames + [None])
    cuts = make_cuts(plan["cut"], len(outer), [])
    st = ChunkedStream(outer, cuts)

    class C(TraditionalGitClient):
        def _connect(self, *a, **kw):
            raise NotImplementedError
    cl = C()
    cl._report_status_parser = ReportStatusParser()
    p = Protocol(buffered_read(st), lambda b: None)
    ctx.stat("probe:nested_status_stream")
    ctx.case([util.h8(outer), util.h8(cuts[:100])], True)
    try:
        got = cl._handle_receive_pack_tail(
            p, {b"side-band-64k", b"report-status"}, lambda b: None)
    except BaseException as e:  # noqa: BLE001
        ctx.v(f"wrong-exception/nested-report-status/{type(e).__name__}",
              f"{e!r}; {plan['refs']} refs, frames of <= {plan['frame']} "
              f"bytes")
        return
    if got != want:
        ctx.v("roundtrip-mismatch/nested-report-status",
              f"{len(got or {})} of {len(want)} statuses came back "
              f"(frames of <= {plan['frame']} bytes); missing "
              f"{sorted(set(want) - set(got or {}))[:2]}")


def run_exhaustive(plan, ctx):
    frames = materialise(plan["frames"])
    data = ref_encode(frames)
    n = len(data)
    assert n <= 16
    for mask in range(1 << (n - 1)):
        cuts = []
        last = 0
        for i in range(1, n):
            if mask & (1 << (i - 1)):
                cuts.append(i - last)
                last = i
        cuts.append(n - last)
        check_decode(ctx, data, cuts, "eof", "exhaustive", rbufsize=3,
                     expect=frames)
    ctx.stat("exhaustive_partitions", 1 << (n - 1))


def run_truncate(plan, ctx):
    frames = materialise(plan["frames"])
    data = ref_encode(frames)
    n = len(data)
    # every offset for short streams; otherwise all offsets around frame
    # boundaries plus a random sample (cost is bounded: tiny chunks are only
    # used on prefixes up to a few thousand bytes)
    if n <= 300:
        offs = list(range(n + 1))
    else:
        near = set()
        pos = 0
        for f in frames:
            pos += 4 if not isinstance(f, bytes) else 4 + len(f)
            near.update(range(max(0, pos - 6), min(n, pos + 6) + 1))
        offs = sorted(near | set(random.Random(plan["seed"]).sample(
            range(n + 1), 40)) | {0, 1, 2, 3, 4, 5, n - 1, n})
    for off in offs:
        part = data[:off]
        spec = plan["cut"]
        if len(part) > 6000 and spec["mode"] in ("ones", "small"):
            spec = dict(spec, mode="mixed")
        cuts = make_cuts(spec, len(part))
        check_decode(ctx, part, cuts, plan["end"], "truncate")


def run_garbage(plan, ctx):
    r = random.Random(derive_seed(plan["seed"], "garbage"))
    shape = plan["shape"]
    for _ in range(20):
        if shape == "random":
            data = bytes(r.randrange(256) for _ in range(r.randint(0, 40)))
        elif shape == "prefixes":
            data = bytes(r.choice(b"0123456789abcdefABCDEF+- _xX\n\0")
                         for _ in range(r.randint(0, 16)))
        elif shape == "lengths":
            ln = r.choice([0, 1, 2, 3, 4, 5, 8, 100, 65520, 65521, 65535])
            have = r.choice([0, 1, max(0, ln - 5), max(0, ln - 4),
                             max(0, ln - 3), ln])
            data = b"%04x" % ln + bytes(have)
        else:
            frames = materialise(_frames(r, 4))
            frames = [f if not isinstance(f, bytes) or len(f) < 2000
                      else f[:50] for f in frames]
            b = bytearray(ref_encode(frames))
            for _ in range(r.randint(1, 3)):
                if not b:
                    break
                op = r.random()
                i = r.randrange(len(b))
                if op < 0.4:
                    b[i] ^= 1 << r.randrange(8)
                elif op < 0.6:
                    del b[i]
                elif op < 0.8:
                    b.insert(i, r.randrange(256))
                else:
                    b[i:i + 4] = bytes(r.choice(HEX + b"-+ ")
                                       for _ in range(4))
            data = bytes(b)
        cuts = make_cuts(plan["cut"], len(data))
        check_decode(ctx, data, cuts, plan["end"], "garbage/" + shape)


def run_prefix(plan, ctx):
    shard = plan["shard"]
    body = b"x" * 12
    alphabet = b"0123456789abcdefABCDEF"
    i = 0
    for a, b_, c, d in itertools.product(alphabet, repeat=4):
        i += 1
        if i % 64 != shard:
            continue
        pre = bytes([a, b_, c, d])
        check_decode(ctx, pre + body, [3, 2, 1], "eof", "prefix",
                     with_parser=(i % 4 == 0))
    r = random.Random(shard)
    for _ in range(300):
        pre = bytes(r.choice(b"0123456789abcdefgG+- _\n\t\0xX\xff")
                    for _ in range(4))
        check_decode(ctx, pre + body, [2, 2, 9], "eof", "prefix-nonhex")
    # every non-hex byte value in one position of prefixes whose frame is
    # completely present (a malformed prefix that is *accepted* then shows as
    # a frame, not as a short read): position = shard mod 4
    pos = shard % 4
    n_sub = 0
    for bval in range(256):
        if bval in alphabet:
            continue
        for base in (b"0000", b"0001", b"0004", b"0008", b"000c", b"0010"):
            pre = base[:pos] + bytes([bval]) + base[pos + 1:]
            check_decode(ctx, pre + body + body, [4, 3, 5], "eof",
                         "prefix-nonhex")
            n_sub += 1
    ctx.stat("prefixes_checked", len(alphabet) ** 4 // 64 + 300 + n_sub)


def run_oversize(plan, ctx):
    from dulwich.protocol import (BufferedPktLineWriter, Protocol, pkt_line,
                                  pkt_seq)
    n = plan["size"]
    data = payload(1, n)
    ctx.stat("probe:oversize_payload")
    out = []
    via = plan["via"]
    try:
        if via == "pkt_line":
            out.append(pkt_line(data))
        elif via == "pkt_seq":
            out.append(pkt_seq(b"a", data))
        elif via == "write_pkt_line":
            Protocol(lambda k: b"", out.append).write_pkt_line(data)
        else:
            w = BufferedPktLineWriter(out.append)
            w.write(data)
            w.flush()
    except (ValueError, AssertionError, OverflowError) as e:
        refused = True
        ctx.case([via, n, "refused"], True)
        if n <= MAXPAY:
            ctx.v(f"roundtrip-mismatch/legal-payload-refused/{via}",
                  f"{n} bytes: {e!r}")
        return
    except BaseException as e:  # noqa: BLE001
        from dulwich.errors import GitProtocolError
        if isinstance(e, GitProtocolError):
            ctx.case([via, n, "refused"], True)
            return
        ctx.v(f"wrong-exception/oversize/{via}/{type(e).__name__}", repr(e))
        return
    ctx.case([via, n, "emitted"], True)
    emitted = b"".join(out)
    bad = walk_frames(emitted)
    if bad:
        ctx.v(f"malformed-frame-emitted/{via}",
              f"payload of {n} bytes: {bad}; stream starts "
              f"{emitted[:8]!r}")
        return
    frames, ending = ref_decode(emitted)
    got = b"".join(f for f in frames if f)
    if n <= MAXPAY and via != "pkt_seq" and got != data:
        ctx.v(f"roundtrip-mismatch/oversize/{via}", f"{n} bytes")


def run_sideband(plan, ctx):
    from dulwich.client import _read_side_band64k_data
    from dulwich.protocol import Protocol
    out = []
    p = Protocol(lambda n: b"", out.append)
    want = {1: b"", 2: b"", 3: b""}
    order = []
    for i, (ch, n) in enumerate(plan["blobs"]):
        blob = payload(i, n, salt=9)
        p.write_sideband(ch, blob)
        want[ch] += blob
        if blob:
            order.append(ch)
    p.write_pkt_line(None)
    emitted = b"".join(out)
    bad = walk_frames(emitted)
    if bad:
        ctx.v("malformed-frame-emitted/write_sideband", bad)
        return
    cuts = make_cuts(plan["cut"], len(emitted))
    for name in ("Protocol", "ReceivableProtocol"):
        st = ChunkedStream(emitted, cuts)
        if name == "Protocol":
            from dulwich.protocol import Protocol as P
            rp = P(buffered_read(st), lambda b: None)
        else:
            from dulwich.protocol import ReceivableProtocol as RP
            rp = RP(st.recv, lambda b: None)
        got = {1: b"", 2: b"", 3: b""}
        try:
            for ch, data in _read_side_band64k_data(rp.read_pkt_seq()):
                got[ch] += data
        except BaseException as e:  # noqa: BLE001
            ctx.v(f"wrong-exception/sideband/{name}/{type(e).__name__}",
                  repr(e))
            continue
        ctx.case([util.h8(emitted), util.h8(cuts[:200]), name, "sb"],
                 len(cuts) > 1)
        if got != want:
            ctx.v(f"roundtrip-mismatch/sideband/{name}",
                  f"blobs={plan['blobs']} got "
                  f"{ {k: len(v) for k, v in got.items()} } want "
                  f"{ {k: len(v) for k, v in want.items()} }")


def run_caps(plan, ctx):
    from dulwich.protocol import (extract_capabilities,
                                  extract_want_line_capabilities,
                                  format_ref_line)
    r = random.Random(derive_seed(plan["seed"], "caps"))
    # (contents without NUL and LF; a space separates capabilities)
    alpha = bytes(c for c in range(1, 256) if c not in (0, 10, 32)) \
        if plan["seed"] % 80 >= 40 else \
        bytes(c for c in range(33, 127)) + b"\xc3\xa9"

    def word(maxlen=12):
        return bytes(r.choice(alpha) for _ in range(r.randint(1, maxlen)))
    for _ in range(50):
        caps = [word().replace(b" ", b"_") for _ in range(r.randint(0, 6))]
        caps = [c for c in caps if b" " not in c and b"\0" not in c]
        sha = bytes(r.choice(b"0123456789abcdef") for _ in range(40))
        ref = b"refs/heads/" + word().replace(b"\0", b"")
        line = format_ref_line(ref, sha, caps if caps or r.random() < 0.5
                               else None)
        ctx.case([line], True)
        text, got = extract_capabilities(line.rstrip(b"\n"))
        if caps:
            if got != caps or text != sha + b" " + ref:
                ctx.v("roundtrip-mismatch/ref-line-capabilities",
                      f"line={line!r} caps={caps} got={got} text={text!r}")
        elif got != [] or text != sha + b" " + ref:
            ctx.v("roundtrip-mismatch/ref-line-no-capabilities",
                  f"line={line!r} got={got} text={text!r}")
        # a capability is name or name=value; only the first '=' separates
        from dulwich.protocol import parse_capability
        for c in caps:
            name = c.replace(b"=", b"_")
            if parse_capability(name) != (name, None):
                ctx.v("roundtrip-mismatch/capability-without-value",
                      f"{name!r} -> {parse_capability(name)!r}")
            value = c + r.choice([b"", b"=", b"=1.0", b":refs/heads/a=b"])
            got_c = parse_capability(name + b"=" + value)
            if got_c != (name, value):
                ctx.v("roundtrip-mismatch/capability-value",
                      f"{name + b'=' + value!r} -> {got_c!r}")
        wl = b"want " + sha + (b" " + b" ".join(caps) if caps else b"")
        text, got = extract_want_line_capabilities(wl)
        if got != caps or text != b"want " + sha:
            ctx.v("roundtrip-mismatch/want-line-capabilities",
                  f"line={wl!r} caps={caps} got={got} text={text!r}")


def run_mixed(plan, ctx):
    """pkt-lines followed by a pack on the same stream (read/recv mixing)."""
    from dulwich.object_format import DEFAULT_OBJECT_FORMAT
    from dulwich.objects import Blob
    from dulwich.pack import PackStreamReader, write_pack_objects
    from dulwich.protocol import ReceivableProtocol
    r = random.Random(derive_seed(plan["seed"], "mixed"))
    lines = [payload(i, r.choice([1, 5, 40, 300])) for i in
             range(plan["lines"])]
    blobs = [Blob.from_string(payload(i, r.choice([0, 3, 100, 5000]), 5))
             for i in range(plan["nobj"])]
    f = io.BytesIO()
    write_pack_objects(f.write, [(b, None) for b in blobs],
                       DEFAULT_OBJECT_FORMAT)
    pack = f.getvalue()
    # nothing follows the pack on a v0/v1 stream (the sender then waits for
    # the report or closes), so the stream ends with the pack trailer
    data = ref_encode(lines + [None]) + pack
    cuts = make_cuts(plan["cut"], len(data))
    st = ChunkedStream(data, cuts)
    p = ReceivableProtocol(st.recv, lambda b: None,
                           rbufsize=plan["rbufsize"])
    ctx.case([util.h8(data), util.h8(cuts[:200]), plan["rbufsize"]],
             len(cuts) > 1)
    try:
        got = list(p.read_pkt_seq())
        if got != lines:
            ctx.v("roundtrip-mismatch/mixed/lines-before-pack",
                  f"{[len(x) for x in got]}")
            return
        rd = PackStreamReader(DEFAULT_OBJECT_FORMAT.hash_func, p.read,
                              p.recv)
        objs = list(rd.read_objects())
        ids = sorted(o.sha().hex() for o in objs)
        if ids != sorted(b.id.decode() for b in blobs) or \
                len(rd) != len(blobs):
            ctx.v("roundtrip-mismatch/mixed/pack-objects",
                  f"{ids} vs {[b.id for b in blobs]}")
            return
    except StreamSpin as e:
        ctx.v("hang/mixed", repr(e))
    except BaseException as e:  # noqa: BLE001
        ctx.v(f"wrong-exception/mixed/{type(e).__name__}",
              f"{e!r} cuts={cuts[:20]} rbufsize={plan['rbufsize']}")


RUNNERS = {"nested": run_nested,
           "roundtrip": run_roundtrip, "exhaustive": run_exhaustive,
           "truncate": run_truncate, "garbage": run_garbage,
           "prefix": run_prefix, "oversize": run_oversize,
           "sideband": run_sideband, "caps": run_caps, "mixed": run_mixed}


def run_plan(plan):
    ctx = Ctx()
    RUNNERS[plan["kind"]](plan, ctx)
    seen = set()
    out = []
    for v in ctx.viols:
        if v["sig"] not in seen:
            seen.add(v["sig"])
            out.append(v)
    ctx.stats["kind:" + plan["kind"]] = 1
    dig = util.h8([c[0] for c in ctx.cases] + [v["sig"] for v in out])
    return {"violations": out, "digest": dig, "ihash": dig,
            "nontrivial": any(c[1] for c in ctx.cases), "trace": None,
            "stats": ctx.stats, "events": None, "cases": ctx.cases,
            "sample": {"plan": plan, "cases": len(ctx.cases)}}


def shrink(plan):
    def cp():
        return json.loads(json.dumps(plan))
    if "frames" in plan and len(plan["frames"]) > 1:
        for i in range(len(plan["frames"])):
            p = cp()
            del p["frames"][i]
            yield p
    if "frames" in plan:
        for i, f in enumerate(plan["frames"]):
            if isinstance(f, int) and f > 1:
                p = cp()
                p["frames"][i] = 1 if f > 4 else 0
                yield p
    if "blobs" in plan and len(plan["blobs"]) > 1:
        for i in range(len(plan["blobs"])):
            p = cp()
            del p["blobs"][i]
            yield p
    if "cut" in plan and plan["cut"]["mode"] != "whole":
        p = cp()
        p["cut"]["mode"] = "whole"
        yield p
