"""C09 -- a crash at any instant leaves a repository that opens and is
consistent.

One plan = one generated repository + one repository-changing operation.
The operation is executed once; at every boundary before a mutating system
call (and after the last) the crash image is materialised (process-crash
model always, power-loss model when core.fsyncObjectFiles is on) and handed to
the recovery checker, which opens it with a fresh Repo.
"""

from __future__ import annotations

import gc
import hashlib
import io
import json
import os
import random

from .. import simfs, util
from ..crash import CrashRecorder
from ..kernel import Sim, derive_seed
from ..simfs import R
from ..workloads import history as H

PROP_ID = "C09"
LEVEL = "fault_enumeration"
RULE = ("seeded scenario = generated repository (loose/packed/mixed objects, "
        "loose/packed refs, garbage, fsync on/off, write-buffer size) x one "
        "operation from the list in OPS; within a scenario every boundary "
        "before a mutating syscall is a crash point (exhaustive), each giving "
        "a process-crash image and, with core.fsyncObjectFiles, two power-loss "
        "images. A case = one distinct crash image (content hash); "
        "non-trivial when it differs from both the pre- and post-operation "
        "image.")
ASSUMPTIONS = [
    "metadata operations (create, rename, unlink, mkdir) are durable in "
    "order; only file data not yet fsynced may be lost (ext4-ordered-like)",
    "power-loss images are only built when core.fsyncObjectFiles is enabled, "
    "as the property states",
    "a crash is modelled by copying the disk at a syscall boundary, not by "
    "killing a thread (no finally/__del__ clean-up runs)",
    "stale *.lock files may legitimately block a follow-up operation with "
    "FileLocked",
]
COMPONENTS = {
    "real": ["dulwich Repo/DiskObjectStore/DiskRefsContainer/Index/ConfigFile/"
             "gc/porcelain (operation under test and recovery reads)",
             "zlib, mmap, tmpfs"],
    "stub": ["crash (disk image copied at syscall boundary)", "clock",
             "stat metadata", "temp-file names", "write buffering"],
}
PROBES = {"image_with_stale_lock": 1, "image_with_tmp_pack": 1,
          "power_loss_image": 1, "pack_without_idx": 1,
          "operation_retried_on_crash_image": 1}
MIN_BUDGET = 60

OPS = ["add_objects", "commit_tree", "porcelain_commit", "ref_set", "ref_cas",
       "ref_delete", "symref", "pack_refs", "add_thin_pack", "add_pack",
       "pack_loose", "repack", "gc", "gc_default_grace", "prune",
       "index_write", "config_write", "commit_graph", "midx", "fetch_local",
       "tag_create", "branch_delete_packed", "two:commit+pack_refs",
       "two:add_pack+gc", "detach_head", "attach_head", "stash_push",
       "stash_push_second",
       # round 5: the server's receive-pack, the in-process push, and more
       # porcelain that moves refs, index and objects together
       "receive_pack", "receive_pack_atomic", "push_local", "stash_pop",
       "stash_drop", "reset_hard", "notes_add", "repack_bitmaps",
       "tag_delete", "branch_create"]


REDO_OPS = ("add_objects", "add_thin_pack", "add_pack", "fetch_local")


FAULT_COUNTERS = {
    "model:process-crash": "crash/process (image at a mutating-call boundary)",
    "model:power-loss": "crash/power-loss (unsynced data reverted, lost, "
                        "prefix or zero-filled)",
}


def budget(tier):
    return 640 if tier == "quick" else 24000


def gen_plan(seed, tier):
    rng = random.Random(derive_seed(seed, "c09plan"))
    op = OPS[seed % len(OPS)]
    return {
        "kind": "crash", "seed": seed, "op": op,
        "n_commits": rng.randint(2, 6 if tier == "quick" else 12),
        "layout": rng.choice(["loose", "packed", "mixed", "mixed"]),
        "packed_refs": rng.choice(["none", "all", "mixed"]),
        "garbage": rng.random() < 0.5,
        "fsync": rng.random() < 0.5,
        "buffering": rng.choice([-1, -1, 64, 512, 4096]),
        "followup_gc": rng.random() < 0.25,
        "only": None,
        # the restarted process does what any caller does after a crash: the
        # same operation again
        "redo": rng.random() < 0.6,
    }


# ------------------------------------------------------------ scenario
class Scenario:
    pass


def build(plan, root):
    """Build the initial repository (harness context)."""
    from dulwich.repo import Repo
    rng = random.Random(derive_seed(plan["seed"], "c09build"))
    sc = Scenario()
    sc.u = u = H.Universe()
    sc.path = os.path.join(root, "repo")
    cfg = {}
    if plan["fsync"]:
        cfg[((b"core",), b"fsyncObjectFiles")] = b"true"
    r = util.init_repo(sc.path, config=cfg)
    hist = H.gen_history(u, rng, plan["n_commits"], salt=b"B")
    sc.hist = hist
    base_ids = sorted(u.closure(hist["commits"] + list(hist["tags"].values())))
    layout = plan["layout"]
    if layout == "mixed":
        half = hist["commits"][:max(1, len(hist["commits"]) // 2)]
        first = sorted(u.closure(half))
        u.add_to_store(r.object_store, first)
        r.object_store.pack_loose_objects()
        u.add_to_store(r.object_store, [i for i in base_ids
                                        if i not in set(first)])
    else:
        u.add_to_store(r.object_store, base_ids)
        if layout == "packed":
            r.object_store.pack_loose_objects()
    refs = {}
    for i, h in enumerate(hist["heads"][:3]):
        refs[b"refs/heads/b%d" % i] = h
    if b"refs/heads/b0" not in refs:
        refs[b"refs/heads/b0"] = hist["commits"][-1]
    refs[b"refs/heads/old"] = hist["commits"][0]
    refs.update(hist["tags"])
    for k, v in sorted(refs.items()):
        r.refs[k] = v
    r.refs.set_symbolic_ref(b"HEAD", b"refs/heads/b0")
    if plan["packed_refs"] != "none":
        r.refs.pack_refs(all=True)
        if plan["packed_refs"] == "mixed":
            # loose overriding packed, plus one loose-only ref
            r.refs[b"refs/heads/old"] = hist["commits"][min(
                1, len(hist["commits"]) - 1)]
            r.refs[b"refs/heads/looseonly"] = hist["commits"][-1]
    if plan["garbage"]:
        g = H.Universe()
        gb = g.blob(b"garbage blob\n")
        gt = g.tree([(b"g", 0o100644, gb)])
        gcid = g.commit(gt, [], 1690000000, b"garbage\n")
        g.add_to_store(r.object_store, [gb, gt, gcid])
        sc.garbage = (g, [gb, gt, gcid])
    else:
        sc.garbage = None
    # objects the operation will add: more history on top
    sc.extra = H.gen_history(u, rng, rng.randint(1, 3), t0=1700100000,
                             salt=b"X", tags=False)
    # re-parent the first extra commit on b0 so that it extends history
    top = refs[b"refs/heads/b0"]
    ex_tree = sc.extra["trees_of"][sc.extra["commits"][-1]]
    sc.newc = u.commit(ex_tree, [top], 1700200000, b"new commit\n")
    sc.new_ids = sorted(u.closure([sc.newc]) - set(base_ids))
    sc.base_ids = base_ids
    # a work tree with a few files and an index
    wt_rng = random.Random(derive_seed(plan["seed"], "c09wt"))
    for n in ("w1.txt", "w2.txt"):
        with open(os.path.join(sc.path, n), "wb") as f:
            f.write(b"worktree file %s %d\n" % (n.encode(),
                                                wt_rng.randint(0, 99)))
    from dulwich import porcelain
    porcelain.add(r, [os.path.join(sc.path, "w1.txt")])
    r.close()
    return sc


def refs_raw(path):
    from dulwich.repo import Repo
    r = Repo(path)
    try:
        out = {}
        for k in list(r.refs.allkeys()) + [b"HEAD"]:
            v = r.refs.read_ref(k)
            if v is not None:
                out[k] = v
        return out
    finally:
        r.close()


# ----------------------------------------------------------------- ops
def _pack_bytes(u, ids, thin_against=None):
    """A pack of the given ids (harness-side; uses dulwich's writer)."""
    from dulwich.object_format import DEFAULT_OBJECT_FORMAT
    from dulwich.pack import write_pack_objects
    f = io.BytesIO()
    objs = [(u.shaobjs[i], None) for i in ids]
    write_pack_objects(f.write, objs, DEFAULT_OBJECT_FORMAT)
    return f.getvalue()


def run_op(name, r, sc, plan):
    from dulwich import porcelain
    from dulwich.gc import garbage_collect
    u = sc.u
    st = r.object_store
    if name == "add_objects":
        u.add_to_store(st, sc.new_ids)
    elif name == "commit_tree":
        u.add_to_store(st, [i for i in sc.new_ids if i != sc.newc])
        r.get_worktree().commit(
            message=b"wt commit\n", committer=H.IDENT, author=H.IDENT,
            commit_timestamp=1700300000, commit_timezone=0,
            author_timestamp=1700300000, author_timezone=0,
            tree=u.edges[sc.newc][0], ref=b"refs/heads/b0", no_verify=True)
    elif name == "porcelain_commit":
        with open(os.path.join(sc.path, "w2.txt"), "wb") as f:
            f.write(b"changed\n" * 30)
        porcelain.add(r, [os.path.join(sc.path, "w2.txt")])
        porcelain.commit(r, message=b"porcelain commit\n", author=H.IDENT,
                         committer=H.IDENT, commit_timestamp=1700300000,
                         commit_timezone=0, author_timestamp=1700300000,
                         author_timezone=0, no_verify=True)
    elif name == "ref_set":
        r.refs[b"refs/heads/b0"] = sc.hist["commits"][0]
    elif name == "ref_cas":
        old = r.refs[b"refs/heads/old"]
        assert r.refs.set_if_equals(b"refs/heads/old", old,
                                    sc.hist["commits"][-1])
    elif name == "ref_delete":
        del r.refs[b"refs/heads/old"]
    elif name == "symref":
        r.refs.set_symbolic_ref(b"HEAD", b"refs/heads/old")
    elif name == "pack_refs":
        r.refs.pack_refs(all=True)
    elif name == "add_thin_pack":
        data = _pack_bytes(u, sc.new_ids)
        f = io.BytesIO(data)
        st.add_thin_pack(f.read, None)
        r.refs[b"refs/heads/b0"] = sc.newc
    elif name == "add_pack":
        data = _pack_bytes(u, sc.new_ids)
        f, commit, abort = st.add_pack()
        f.write(data)
        commit()
        r.refs[b"refs/heads/b0"] = sc.newc
    elif name == "pack_loose":
        st.pack_loose_objects()
    elif name == "repack":
        u.add_to_store(st, sc.new_ids)
        st.pack_loose_objects()
        st.repack()
    elif name == "gc":
        garbage_collect(r, grace_period=None)
    elif name == "gc_default_grace":
        garbage_collect(r)
    elif name == "prune":
        st.prune(grace_period=0)
    elif name == "index_write":
        idx = r.open_index()
        from .c07 import _entry
        for i in range(25):
            idx[b"idx/file%03d" % i] = _entry(r, b"x", b"index %d\n" % i)
        idx.write()
    elif name == "config_write":
        c = r.get_config()
        for i in range(20):
            c.set((b"sect%d" % i,), b"k", b"v%d" % i)
        c.write_to_path()
    elif name == "commit_graph":
        st.write_commit_graph()
    elif name == "midx":
        st.pack_loose_objects()
        st.write_midx()
    elif name == "fetch_local":
        porcelain.fetch(r, sc.remote_path, errstream=io.BytesIO(),
                        outstream=io.BytesIO())
    elif name == "detach_head":
        # git checkout --detach <commit>, the ref part of it
        porcelain.update_head(r, sc.hist["commits"][0].decode(),
                              detached=True)
    elif name in ("stash_push", "stash_push_second"):
        with open(os.path.join(sc.path, "w1.txt"), "ab") as f:
            f.write(b"stashed change\n")
        porcelain.stash_push(r)
    elif name == "attach_head":
        porcelain.update_head(r, b"old")
    elif name == "tag_create":
        porcelain.tag_create(r, b"newtag", author=H.IDENT, message=b"m\n",
                             annotated=True, objectish=sc.hist["commits"][-1],
                             tag_time=1700300000, tag_timezone=0)
    elif name == "branch_delete_packed":
        r.refs.pack_refs(all=True)
        del r.refs[b"refs/heads/b0"]
    elif name in ("receive_pack", "receive_pack_atomic"):
        _receive_pack(r, sc, atomic=name.endswith("atomic"))
    elif name == "push_local":
        from dulwich.repo import Repo as _Repo
        src = _Repo(sc.remote_path)
        try:
            porcelain.push(src, sc.path,
                           [b"refs/heads/b0:refs/heads/b0",
                            b"refs/heads/b0:refs/heads/pushed",
                            b":refs/heads/old"],
                           outstream=io.BytesIO(), errstream=io.BytesIO())
        finally:
            src.close()
    elif name == "stash_pop":
        porcelain.stash_pop(r)
    elif name == "stash_drop":
        porcelain.stash_drop(r, 0)
    elif name == "reset_hard":
        porcelain.reset(r, "hard", sc.hist["commits"][0])
    elif name == "notes_add":
        porcelain.notes_add(r, sc.hist["commits"][-1], b"a note\n",
                            author=H.IDENT, committer=H.IDENT)
    elif name == "repack_bitmaps":
        u.add_to_store(st, sc.new_ids)
        porcelain.repack(r, write_bitmaps=True)
    elif name == "tag_delete":
        tags = sorted(k for k in r.refs.allkeys()
                      if k.startswith(b"refs/tags/"))
        if tags:
            porcelain.tag_delete(r, tags[0][len(b"refs/tags/"):])
        else:
            del r.refs[b"refs/heads/old"]
    elif name == "branch_create":
        porcelain.branch_create(r, b"created", objectish=sc.hist["commits"][0])
    elif name.startswith("two:"):
        a, b = name[4:].split("+")
        run_op({"commit": "commit_tree"}.get(a, a), r, sc, plan)
        run_op(b, r, sc, plan)
    else:
        raise ValueError(name)


def _receive_pack(r, sc, atomic):
    """A push as the server sees it: three commands (update, create, delete)
    and the pack, through ReceivePackHandler."""
    from dulwich.protocol import ReceivableProtocol, pkt_line
    from dulwich.server import DictBackend, ReceivePackHandler
    z = b"0" * 40
    b0 = r.refs[b"refs/heads/b0"]
    old = r.refs[b"refs/heads/old"]
    caps = b"report-status delete-refs" + (b" atomic" if atomic else b"")
    req = (pkt_line(b0 + b" " + sc.newc + b" refs/heads/b0\0" + caps) +
           pkt_line(z + b" " + sc.newc + b" refs/heads/pushed") +
           pkt_line(old + b" " + z + b" refs/heads/old") + b"0000")
    inp = io.BytesIO(req + _pack_bytes(sc.u, sc.new_ids))
    out = []
    proto = ReceivableProtocol(inp.read, out.append, rbufsize=4096)
    h = ReceivePackHandler(DictBackend({b"/": r}), [b"/"], proto)
    h.handle()
    reply = b"".join(out)
    if b"unpack ok" not in reply or b"ng " in reply:
        raise RuntimeError(f"push refused: {reply[-300:]!r}")


# ------------------------------------------------------ recovery checker
def _hash_ok(oid, tn, raw):
    h = hashlib.sha1(H.TYPE_NAMES[tn] + b" %d\0" % len(raw) + raw)
    return h.hexdigest().encode() == oid


def walk_closure(store, start, u, problems, seen):
    """Every object reachable from start is present and hashes to its name
    (model bytes where the model knows the object)."""
    from dulwich.objects import ShaFile
    todo = [start]
    while todo:
        oid = todo.pop()
        if oid in seen:
            continue
        seen.add(oid)
        try:
            tn, raw = store.get_raw(oid)
        except KeyError:
            problems.append(("missing", oid))
            continue
        except Exception as e:  # noqa: BLE001
            problems.append((f"error:{type(e).__name__}", oid))
            continue
        if oid in u.objs:
            if (tn, raw) != u.objs[oid]:
                problems.append(("content-differs", oid))
                continue
            todo.extend(u.edges[oid])
            continue
        if not _hash_ok(oid, tn, raw):
            problems.append(("hash-mismatch", oid))
            continue
        try:
            o = ShaFile.from_raw_string(tn, raw)
            if tn == 1:
                todo.append(o.tree)
                todo.extend(o.parents)
            elif tn == 2:
                for e in o.items():
                    if e.mode != 0o160000:
                        todo.append(e.sha)
            elif tn == 4:
                todo.append(o.object[1])
        except Exception as e:  # noqa: BLE001
            problems.append((f"unparsable:{type(e).__name__}", oid))


def check_image(img, sc, plan, allowed_refs, must_have, files_allowed, model,
                rng, stats):
    """-> list of (class, detail)."""
    from dulwich.file import FileLocked
    from dulwich.repo import Repo
    out = []
    path = img
    snap = None
    try:
        r = Repo(path)
    except BaseException as e:  # noqa: BLE001
        return [("reopen-failed", f"{type(e).__name__}: {e}")]
    try:
        # (2) refs
        try:
            names = set(r.refs.allkeys()) | {b"HEAD"}
        except BaseException as e:  # noqa: BLE001
            out.append(("refs-unlistable", f"{type(e).__name__}: {e}"))
            names = {b"HEAD"}
        names |= set(allowed_refs)
        resolved = {}
        for n in sorted(names):
            try:
                v = r.refs.read_ref(n)
            except BaseException as e:  # noqa: BLE001
                out.append(("ref-unreadable", f"{n!r}: {type(e).__name__}: {e}"))
                continue
            allowed = allowed_refs.get(n, {None})
            if v is None and n == b"HEAD" and None not in allowed:
                # without HEAD the directory is not even a repository for git
                out.append(("head-missing", f"allowed "
                            f"{sorted(map(repr, allowed))}"))
            elif v not in allowed:
                out.append(("ref-neither-old-nor-new",
                            f"{n!r} = {v!r}, allowed {sorted(map(repr, allowed))}"))
            if v is not None:
                try:
                    resolved[n] = r.refs[n]
                except KeyError:
                    if n != b"HEAD":
                        out.append(("ref-unresolvable", repr(n)))
                except BaseException as e:  # noqa: BLE001
                    out.append(("ref-unreadable",
                                f"{n!r}: {type(e).__name__}: {e}"))
        # (3) every ref names an object that is present, intact, complete
        seen = set()
        st = r.object_store
        for n, v in sorted(resolved.items()):
            probs = []
            walk_closure(st, v, sc.u, probs, seen)
            if probs:
                out.append(("ref-dangling",
                            f"{n!r} -> {v!r}: {probs[:3]}"))
        # (4) everything reachable before is intact
        lost = []
        for oid in must_have:
            w = sc.u.intact_in(st, oid)
            if w:
                lost.append((w, oid))
        if lost:
            out.append(("reachable-object-lost", f"{lost[:4]}"))
        # (5) nothing visible fails its hash
        try:
            for oid in list(st):
                try:
                    tn, raw = st.get_raw(oid)
                except KeyError:
                    out.append(("listed-object-missing", repr(oid)))
                    continue
                except BaseException as e:  # noqa: BLE001
                    out.append(("object-unreadable",
                                f"{oid!r}: {type(e).__name__}: {e}"))
                    continue
                if not _hash_ok(oid, tn, raw):
                    out.append(("object-hash-mismatch", repr(oid)))
        except BaseException as e:  # noqa: BLE001
            out.append(("store-unlistable", f"{type(e).__name__}: {e}"))
        # (6) index and config are old or new, and parse
        for rel, allowed in files_allowed.items():
            data = util.read_real(os.path.join(path, rel))
            if data not in allowed:
                out.append(("index-or-config-garbled",
                            f"{rel}: {len(data) if data is not None else None} "
                            f"bytes, neither old nor new"))
        try:
            r.open_index()
        except BaseException as e:  # noqa: BLE001
            out.append(("index-or-config-garbled",
                        f"index: {type(e).__name__}: {e}"))
        try:
            r.get_config()
        except BaseException as e:  # noqa: BLE001
            out.append(("index-or-config-garbled",
                        f"config: {type(e).__name__}: {e}"))
        # (7) the restarted process can carry on
        snap = util.snapshot(path)
        locks = [p for p in snap if p.endswith(".lock")]
        if locks:
            stats["probe:image_with_stale_lock"] = 1
        if any("tmp_pack_" in p or (p.endswith(".pack") and
                                    "/pack/tmp" in p) for p in snap):
            stats["probe:image_with_tmp_pack"] = 1
        packs = {p[:-5] for p in snap if p.endswith(".pack")}
        idxs = {p[:-4] for p in snap if p.endswith(".idx")}
        if packs - idxs:
            stats["probe:pack_without_idx"] = 1
        try:
            fb = util.mk_blob(b"follow-up %d\n" % rng.randint(0, 10**6))
            st.add_object(fb)
            tgt = resolved.get(b"HEAD") or next(iter(must_have))
            r.refs[b"refs/heads/followup"] = tgt
            if st.get_raw(fb.id)[1] != fb.as_raw_string():
                out.append(("followup-op-failed", "blob not readable back"))
            if r.refs[b"refs/heads/followup"] != tgt:
                out.append(("followup-op-failed", "ref not readable back"))
        except FileLocked as e:
            if not locks:
                out.append(("followup-op-failed", f"FileLocked without a "
                            f"lock file: {e}"))
        except BaseException as e:  # noqa: BLE001
            out.append(("followup-op-failed", f"{type(e).__name__}: {e}"))
        if plan.get("redo") and plan["op"] in REDO_OPS:
            stats["probe:operation_retried_on_crash_image"] = 1
            try:
                run_op(plan["op"], r, sc, plan)
            except FileLocked as e:
                # a lock the dead process left: refusing is fine, claiming
                # success without storing anything is not (below)
                if not locks:
                    out.append(("retry-failed", f"FileLocked: {e}"))
                else:
                    stats["probe:retry_refused_by_stale_lock"] = 1
            except BaseException as e:  # noqa: BLE001
                if not locks:
                    out.append(("retry-failed", f"{type(e).__name__}: {e}"))
            else:
                # it reported success: what it delivers is there
                probs = []
                for oid in sc.new_ids:
                    try:
                        tn, raw = st.get_raw(oid)
                        if not _hash_ok(oid, tn, raw):
                            probs.append((oid, "wrong bytes"))
                    except BaseException as e:  # noqa: BLE001
                        probs.append((oid, type(e).__name__))
                if probs:
                    out.append(("retry-succeeded-objects-missing",
                                f"{len(probs)} of {len(sc.new_ids)}: "
                                f"{probs[:3]}"))
        if plan.get("followup_gc"):
            from dulwich.gc import garbage_collect
            try:
                garbage_collect(r, grace_period=None)
            except FileLocked:
                pass
            except BaseException as e:  # noqa: BLE001
                out.append(("followup-gc-failed", f"{type(e).__name__}: {e}"))
            # whatever the refs of this image name must have survived
            seen2 = set()
            for n, v in sorted(resolved.items()):
                probs = []
                walk_closure(st, v, sc.u, probs, seen2)
                if probs:
                    out.append(("reachable-object-lost-after-followup-gc",
                                f"{n!r} -> {v!r}: {probs[:3]}"))
    finally:
        try:
            r.close()
        except BaseException:  # noqa: BLE001
            pass
    return out


def run_plan(plan):
    from dulwich.repo import Repo
    sim = Sim(seed=plan["seed"], sched={"policy": "sequential"},
              clock={"step_lo_ns": 1000, "step_hi_ns": 1000})
    viols = []
    stats = {}
    with util.Sandbox() as root:
        fs = simfs.FS(root, sim, {"buffering": plan["buffering"],
                                  "shuffle_listdir": False})
        simfs.activate(fs)
        sc = build(plan, root)
        if plan["op"] in ("fetch_local", "push_local"):
            # a second repository to fetch from / push from
            sc.remote_path = os.path.join(root, "remote")
            rr = util.init_repo(sc.remote_path, bare=True)
            sc.u.add_to_store(rr.object_store, sorted(sc.u.closure([sc.newc])))
            rr.refs[b"refs/heads/b0"] = sc.newc
            rr.refs[b"refs/heads/side"] = sc.hist["commits"][0]
            rr.close()
        if plan["op"] in ("stash_push_second", "stash_pop", "stash_drop"):
            # an earlier stash: refs/stash has an old value worth keeping
            from dulwich import porcelain
            with open(os.path.join(sc.path, "w1.txt"), "ab") as f:
                f.write(b"first stashed change\n")
            rr = Repo(sc.path)
            porcelain.stash_push(rr)
            if plan["op"] == "stash_drop":
                with open(os.path.join(sc.path, "w1.txt"), "ab") as f:
                    f.write(b"second stashed change\n")
                porcelain.stash_push(rr)
            rr.close()
        rp = sc.path
        old_refs = refs_raw(rp)
        old_files = {rel: util.read_real(os.path.join(rp, rel))
                     for rel in (".git/index", ".git/config")}
        must_have = set()
        rr = Repo(rp)
        for n in old_refs:
            try:
                must_have |= sc.u.closure([rr.refs[n]])
            except KeyError:
                pass
        rr.close()
        must_have = sorted(must_have)
        fs.start_journal()
        rec = CrashRecorder(fs, rp, os.path.join(root, "images"),
                            power_loss=plan["fsync"],
                            rng=sim.rng("powerloss"))

        def hook(fs_, call, rel, n):
            if rel.startswith("repo/") or rel == "repo":
                rec.take((n, call, rel))
        fs.boundary_hook = hook

        def body(a):
            r = Repo(rp)
            a.local["repo"] = r
            run_op(plan["op"], r, sc, plan)
        act = sim.run_inline("op", body)
        fs.boundary_hook = None
        r = act.local.pop("repo", None)
        rec.take((act.mcount, "end", ""))
        if r is not None:
            r.close()
        del r
        gc.collect()
        if act.exc is not None:
            raise RuntimeError(f"operation {plan['op']} failed without any "
                               f"fault: {act.exc!r}")
        new_refs = refs_raw(rp)
        allowed = {}
        for n in set(old_refs) | set(new_refs):
            allowed[n] = {old_refs.get(n), new_refs.get(n)}
        if plan["op"].startswith("two:"):
            # intermediate values: any value observed at an image boundary
            # between the two operations is legal only if it is old or new of
            # one of them; derive by replaying the first op alone
            pass
        files_allowed = {rel: {old_files[rel],
                               util.read_real(os.path.join(rp, rel))}
                         for rel in old_files}
        stats["boundaries"] = rec.boundaries
        stats["images"] = len(rec.images)
        rng = sim.rng("followup")
        ihashes = []
        only = plan.get("only")
        pre_post = set()
        nontrivial = 0
        cases = []
        for idx, (label, img, model, ikey) in enumerate(rec.images):
            if only is not None and idx not in only:
                continue
            if model == "power-loss":
                stats["probe:power_loss_image"] = 1
            stats["model:" + model] = stats.get("model:" + model, 0) + 1
            probs = check_image(img, sc, plan, allowed, must_have,
                                files_allowed, model, rng, stats)
            nt = 0 < idx < len(rec.images) - 1
            cases.append((ikey, nt))
            if nt:
                nontrivial += 1
            for cls, detail in probs:
                site = f"{label[1]}:{_pathclass(label[2])}"
                viols.append({
                    "sig": f"C09/{cls}/{plan['op']}/{model}/{site}",
                    "detail": f"image {idx} at boundary {label[:3]} "
                    f"{label[3] if len(label) > 3 else ''}: {detail}",
                    "image": idx})
        stats["nontrivial_images"] = nontrivial
        simfs.deactivate()
    seen = set()
    out = []
    for v in viols:
        if v["sig"] not in seen:
            seen.add(v["sig"])
            out.append(v)
    stats["sim_ns"] = sim.clock.advanced
    stats["op:" + plan["op"]] = 1
    stats["policy:sequential"] = 1
    return {"violations": out, "digest": sim.digest(),
            "ihash": util.h8([plan["op"], plan["layout"], plan["packed_refs"],
                              plan["fsync"], plan["buffering"],
                              plan["n_commits"], plan["garbage"],
                              sim.digest()]),
            "nontrivial": nontrivial > 0, "trace": None, "stats": stats,
            "cases": cases,
            "events": sim.events,
            "sample": {"plan": plan, "images": stats.get("images"),
                       "boundaries": stats.get("boundaries")}}


def _pathclass(rel):
    """Normalise a path so signatures survive different object ids."""
    import re
    rel = rel[5:] if rel.startswith("repo/") else rel
    rel = re.sub(r"objects/[0-9a-f]{2}/[0-9a-f]{38}", "objects/XX/SHA", rel)
    rel = re.sub(r"objects/[0-9a-f]{2}$", "objects/XX", rel)
    rel = re.sub(r"pack-[0-9a-f]{40}", "pack-SHA", rel)
    rel = re.sub(r"tmp[a-z0-9_]{8}", "tmpXXXX", rel)
    rel = re.sub(r"tmp_pack_[a-z0-9_]+", "tmp_pack_X", rel)
    return rel


def shrink(plan):
    def cp():
        return json.loads(json.dumps(plan))
    if plan["n_commits"] > 2:
        p = cp()
        p["n_commits"] -= 1
        yield p
    for k, v in (("garbage", False), ("layout", "loose"),
                 ("packed_refs", "none"), ("buffering", -1),
                 ("followup_gc", False)):
        if plan[k] != v:
            p = cp()
            p[k] = v
            yield p
