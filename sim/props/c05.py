"""C05 -- fetch, clone and push transfer a complete, byte-identical closure.

Two repositories (sender, receiver) on simfs, a client actor and a server
actor joined by simnet (or LocalGitClient without a wire).  The scheduler
decides delivery chunking/delay (which drives ``can_read()`` and therefore the
have/ACK negotiation), bounded send buffers, and where the connection dies.
"""

from __future__ import annotations

import gc
import json
import os
import random

from .. import nettransport, simfs, simnet, util
from ..kernel import Sim, derive_seed
from ..simfs import R
from ..workloads import history as H

PROP_ID = "C05"
LEVEL = "exploration"
RULE = ("seeded plans: random commit DAG on the sender (merges, disjoint "
        "roots, shared blobs/subtrees, tags of commits/trees/blobs/tags, "
        "gitlinks, unreachable garbage), receiver = closure of a random "
        "subset plus private commits, operation in {fetch, clone, push} x "
        "transport {simnet TCP-like, local} x capability set x depth; network "
        "schedule from {uniform,burst,targeted} with chunking/delay, bounded "
        "buffers, optional reset. Distinct by hash of the event sequence; "
        "non-trivial when objects were actually transferred.")
ASSUMPTIONS = [
    "the dulwich server speaks protocol v0/v1 only; C git in either role and "
    "protocol v2 are outside the simulator",
    "reliable ordered byte stream: only fragmentation, delay, back-pressure "
    "and reset are injected",
    "refs of the receiver are updated by the harness after a successful "
    "transfer (as porcelain.fetch/push would)",
]
COMPONENTS = {
    "real": ["dulwich.client (fetch/send_pack/clone, negotiation)",
             "dulwich.server UploadPackHandler/ReceivePackHandler",
             "dulwich.object_store MissingObjectFinder/generate_pack_data/"
             "add_thin_pack", "dulwich.pack", "LocalGitClient"],
    "stub": ["TCP socket (simnet byte queues)", "scheduler", "clock",
             "stat metadata", "C git (absent)"],
}
PROBES = {"thin_pack_completed": 1, "objects_transferred": 1,
          "failed_transfer": 1, "retry_after_fault_ok": 1, "shallow_fetch": 1,
          "second_fetch_after_growth": 1, "fetch_into_shallow_repo": 1,
          "hostile_want_refused": 1, "http_server_exception": 1,
          "failed_after_refs_changed": 1,
          "disk_fault_during_second_fetch": 1}
MIN_BUDGET = 120


def budget(tier):
    return 10000 if tier == "quick" else 150000


def gen_plan(seed, tier):
    rng = random.Random(derive_seed(seed, "c05plan"))
    op = rng.choice(["fetch", "fetch", "fetch", "clone", "push", "push"])
    transport = rng.choice(["net", "net", "net", "local", "http", "http"])
    pol = rng.choice(["uniform", "burst", "burst", "targeted"])
    sched = {"policy": pol}
    if pol == "burst":
        sched["p_switch"] = rng.choice([0.02, 0.1, 0.3])
    if pol == "targeted":
        sched["p_hot"] = rng.choice([0.3, 0.7])
        sched["p_cold"] = rng.choice([0.02, 0.1])
    faults = []
    if transport == "net" and rng.random() < 0.25:
        faults.append({"dir": rng.choice(["a2b", "b2a"]),
                       "at": rng.choice([0, 1, 10, 100, 300, 1000, 3000,
                                         10000]),
                       "kind": rng.choice(["reset", "reset", "eof"])})
    plan = {
        "kind": op, "seed": seed, "sched": sched, "transport": transport,
        "n_commits": rng.randint(2, 8 if tier == "quick" else 30),
        "have_frac": rng.choice([0.0, 0.3, 0.5, 0.8, 1.0]),
        "private": rng.random() < 0.4,
        "want_frac": rng.choice([0.3, 0.6, 1.0, 1.0]),
        "sender_layout": rng.choice(["loose", "packed", "mixed",
                                     "packed_delta", "packed_delta"]),
        "receiver_layout": rng.choice(["loose", "packed"]),
        "receiver_mem": rng.random() < 0.15,
        "garbage": rng.random() < 0.5,
        "gitlinks": rng.random() < 0.2,
        "big": rng.random() < 0.3,
        "depth": rng.choice([None, None, None, None, 1, 2, 2, 3, 4])
        if op != "push" else None,
        # the in-repo upload-pack *requires* side-band-64k, thin-pack and
        # ofs-delta from its clients, so only the negotiation modes vary
        "client_drop": rng.sample(["multi_ack", "multi_ack_detailed"],
                                  rng.choice([0, 0, 1, 2])),
        "server_drop": rng.sample(["multi_ack", "multi_ack_detailed",
                                   "include-tag", "no-done", "shallow",
                                   "no-progress"], rng.choice([0, 0, 1, 2])),
        "include_tags": rng.random() < 0.5,
        "net": {"cap": rng.choice([None, None, 65536, 4096]),
                "chunk_max": rng.choice([None, 1, 7, 100, 5000]),
                "faults": faults},
        "rbuf": rng.choice([8192, 16, 1]),
    }
    # smart HTTP: stateless requests against dulwich.web, optionally with a
    # second process changing or maintaining the served repository meanwhile
    plan["http_faults"] = []
    plan["mutator"] = []
    if transport == "http":
        if rng.random() < 0.25:
            plan["http_faults"].append({
                "req": rng.choice([0, 1, 1, 2]),
                "kind": rng.choice(["reset-before", "reset-after", "truncate",
                                    "truncate"]),
                "at": rng.choice([0, 1, 10, 100, 1000, 5000])})
        if rng.random() < 0.5:
            ops = ["pack_refs", "repack", "pack_loose", "gc_default"] \
                if op == "push" else \
                ["pack_refs", "repack", "pack_loose", "gc_default", "gc_now",
                 "move_fwd", "move_fwd", "rewind", "delete", "create"]
            plan["mutator"] = [rng.choice(ops)
                               for _ in range(rng.randint(1, 3))]
    if transport == "local" and op == "fetch" and rng.random() < 0.4:
        # the same second process next to an in-process fetch
        plan["mutator"] = [rng.choice(
            ["pack_refs", "repack", "pack_loose", "gc_default", "move_fwd",
             "move_fwd", "move_fwd", "rewind", "create"])
            for _ in range(rng.randint(1, 3))]
    # a client that asks for an object the server holds but does not
    # advertise, next to legitimate wants (a raced or hostile request)
    plan["hostile_want"] = (op == "fetch" and transport in ("net", "http") and
                            plan["garbage"] and rng.random() < 0.2)
    # second stage: the sender's history grows (optionally by a merge of a
    # side branch forked from any older commit, possibly below a shallow
    # boundary) and the receiver fetches again, plain or deepening
    plan["second"] = None
    if op in ("fetch", "clone") and not faults and \
            not plan["http_faults"] and rng.random() < (
            0.6 if plan["depth"] else 0.25):
        plan["second"] = {"grow": rng.randint(1, 3),
                          "side": rng.random() < 0.7,
                          # 2**31-1 is how a client asks to unshallow
                          "depth": rng.choice([None, None, None, 1, 3,
                                               2147483647, 2147483647])}
    if plan["second"] and not plan["receiver_mem"] and rng.random() < 0.35:
        # the receiver's disk fails while it stores what the second fetch
        # brought (the nth mutating call from the start of that fetch)
        plan["second"]["disk_fault"] = {
            "nth": rng.randrange(0, 30),
            "kind": rng.choice(["ENOSPC", "EIO"])}
    if (plan["depth"] or plan["second"]) and "shallow" in plan["server_drop"]:
        # a depth request against a server without 'shallow' is refused by
        # the client up front; nothing to observe
        plan["server_drop"].remove("shallow")
    return plan


def _store_layout(r, u, ids, layout, rng):
    if layout == "packed_delta" and ids:
        # a pack with real deltas, so that the sender can reuse them and
        # produce thin packs against objects the receiver already has
        from dulwich.pack import pack_objects_to_data
        objs = [(u.shaobjs[i], None) for i in ids]
        count, it = pack_objects_to_data(objs, deltify=True)
        r.object_store.add_pack_data(count, it)
        return
    if layout == "mixed":
        half = ids[:len(ids) // 2]
        u.add_to_store(r.object_store, half)
        if half:
            r.object_store.pack_loose_objects()
        u.add_to_store(r.object_store, ids[len(ids) // 2:])
    else:
        u.add_to_store(r.object_store, ids)
        if layout == "packed" and ids:
            r.object_store.pack_loose_objects()


def store_ids(store):
    return set(store)


def check_closure(u, store, tips, shallow=(), where=""):
    """Every object reachable from tips (cut at shallow commits) is intact."""
    probs = []
    seen = set()
    todo = list(tips)
    shallow = set(shallow)
    while todo:
        oid = todo.pop()
        if oid in seen:
            continue
        seen.add(oid)
        if oid not in u.objs:
            continue  # gitlink target
        w = u.intact_in(store, oid)
        if w:
            probs.append((w, oid.decode()))
            continue
        edges = u.edges[oid]
        if u.type_of(oid) == H.COMMIT and oid in shallow:
            edges = edges[:1]  # tree only
        todo.extend(edges)
    return probs, seen


def run_plan(plan):
    from dulwich.client import LocalGitClient
    from dulwich.errors import (GitProtocolError, HangupException,
                                SendPackError)
    from dulwich.repo import MemoryRepo, Repo
    from dulwich.server import DictBackend
    sim = Sim(seed=plan["seed"], sched=plan["sched"],
              clock={"step_lo_ns": 1000, "step_hi_ns": 100000},
              step_cap=400000)
    viols = []
    op = plan["kind"]
    rng = random.Random(derive_seed(plan["seed"], "c05build"))
    with util.Sandbox() as root:
        fs = simfs.FS(root, sim)
        simfs.activate(fs)
        u = H.Universe()
        hist = H.gen_history(u, rng, plan["n_commits"], salt=b"S",
                             gitlinks=plan["gitlinks"], big=plan["big"])
        commits = hist["commits"]
        # ---- sender side refs
        srefs = {}
        for i, h in enumerate(hist["heads"][:4]):
            srefs[b"refs/heads/h%d" % i] = h
        srefs.update(hist["tags"])
        if not any(k.startswith(b"refs/heads/") for k in srefs):
            srefs[b"refs/heads/h0"] = commits[-1]
        # ---- what the receiver already has
        k = int(len(commits) * plan["have_frac"])
        have_commits = rng.sample(commits, k) if k else []
        have_ids = sorted(u.closure(have_commits))
        priv = None
        if plan["private"]:
            ph = H.gen_history(u, rng, 2, salt=b"P", tags=False)
            base = rng.choice(have_commits) if have_commits else None
            priv = u.commit(ph["trees_of"][ph["commits"][-1]],
                            [base] if base else [], 1700500000, b"private\n")
            have_ids = sorted(set(have_ids) | u.closure([priv]))
        garbage_ids = []
        if plan["garbage"]:
            g = H.gen_history(u, rng, 2, salt=b"G", tags=False)
            garbage_ids = sorted(u.closure(g["commits"]))

        if op == "push":
            # the client is the sender, the server the receiver
            sender_path = os.path.join(root, "client")
            recv_path = os.path.join(root, "server")
        else:
            sender_path = os.path.join(root, "server")
            recv_path = os.path.join(root, "client")
        sender = util.init_repo(sender_path, bare=(op != "push"))
        sender_ids = sorted(u.closure(list(srefs.values())))
        extra = [i for i in have_ids if i not in set(sender_ids)] \
            if op == "push" else []
        _store_layout(sender, u, sender_ids, plan["sender_layout"], rng)
        u.add_to_store(sender.object_store, garbage_ids)
        for kk, v in sorted(srefs.items()):
            sender.refs[kk] = v
        sender.refs.set_symbolic_ref(b"HEAD", sorted(
            kk for kk in srefs if kk.startswith(b"refs/heads/"))[0])
        # the sender's own view of history may be edited by graft points
        # (info/grafts): what it *sends* are the real objects, whose real
        # parents the receiver needs (own generator: the other plans of a
        # seed stay what they were)
        grng = random.Random(derive_seed(plan["seed"], "c05graft"))
        if grng.random() < 0.2:
            withp = [c for c in commits if len(u.edges[c]) > 1]
            lines = []
            for c in grng.sample(withp, min(len(withp), grng.choice([1, 2]))):
                newp = [] if grng.random() < 0.5 else \
                    [grng.choice(commits)]
                if c in newp:
                    newp = []
                lines.append(c + b"".join(b" " + x for x in newp) + b"\n")
            if lines:
                sender._put_named_file(os.path.join("info", "grafts"),
                                       b"".join(lines))
                sim.stat("probe:sender_has_graft_points")
        sender.close()

        rrefs = {}
        if op == "clone":
            recv = None
        else:
            if plan["receiver_mem"] and op == "fetch":
                recv = MemoryRepo()
                u.add_to_store(recv.object_store, have_ids)
            else:
                recv = util.init_repo(recv_path, bare=(op == "push"))
                _store_layout(recv, u, have_ids, plan["receiver_layout"], rng)
            for i, c in enumerate(have_commits[:3]):
                rrefs[b"refs/heads/old%d" % i] = c
            if priv:
                rrefs[b"refs/heads/private"] = priv
            for kk, v in sorted(rrefs.items()):
                recv.refs[kk] = v
            if rrefs and op == "push":
                recv.refs.set_symbolic_ref(b"HEAD", sorted(rrefs)[0])
            if not isinstance(recv, MemoryRepo):
                recv.close()
        pre_ids = set(have_ids) if op != "clone" else set()

        # ---- which refs are transferred
        names = sorted(srefs)
        nw = max(1, int(len(names) * plan["want_frac"]))
        chosen = sorted(rng.sample(names, nw))
        outcome = {}

        handlers = nettransport.restricted_handlers(plan["server_drop"])
        server_path = os.path.join(root, "server")
        conn = None
        sres = {}
        if plan["transport"] == "net":
            conn = simnet.Conn(sim, "c", cap=plan["net"]["cap"],
                               faults=plan["net"]["faults"],
                               chunk_max=plan["net"]["chunk_max"])

        conn2 = None
        if conn is not None and plan["net"]["faults"]:
            conn2 = simnet.Conn(sim, "r", cap=None, chunk_max=None)
        http = http2 = None
        ever_values = set(srefs.values())
        mut = {"ref_changing": False, "done": False}
        if plan["transport"] == "http":
            from dulwich.server import FileSystemBackend
            http = nettransport.HttpSim(
                sim, FileSystemBackend(), handlers,
                faults=plan.get("http_faults") or [],
                chunk_max=plan["net"]["chunk_max"], rbuf=max(
                    plan["rbuf"], 16))
            if plan.get("http_faults"):
                http2 = nettransport.HttpSim(
                    sim, FileSystemBackend(), handlers, name="retry",
                    rbuf=max(plan["rbuf"], 16))
        conn3 = None
        second = plan.get("second")
        if conn is not None and second:
            conn3 = simnet.Conn(sim, "s", cap=plan["net"]["cap"],
                                chunk_max=plan["net"]["chunk_max"])
        cur = {"conn": conn, "http": http}
        _hook_thin(sim)

        def mutator_body(a):
            """A second process on the served repository."""
            from dulwich.gc import garbage_collect
            r = Repo(server_path)
            mrng = random.Random(derive_seed(plan["seed"], "c05mut"))
            try:
                from dulwich.file import FileLocked
                for j, mop in enumerate(plan["mutator"]):
                  try:
                    heads = sorted(n for n in r.refs.keys()
                                   if n.startswith(b"refs/heads/"))
                    if mop == "pack_refs":
                        r.refs.pack_refs(all=True)
                    elif mop == "repack":
                        r.object_store.repack()
                    elif mop == "pack_loose":
                        r.object_store.pack_loose_objects()
                    elif mop == "gc_default":
                        garbage_collect(r)
                    elif mop == "gc_now":
                        mut["ref_changing"] = True  # may remove what an
                        # earlier advertisement offered
                        garbage_collect(r, grace_period=None)
                    elif mop in ("move_fwd", "create") and heads:
                        mut["ref_changing"] = True
                        name = mrng.choice(heads)
                        tip = r.refs[name]
                        blob = u.blob(b"mut %d %d\n" % (plan["seed"], j))
                        tree = u.tree([(b"m%d.txt" % j, 0o100644, blob)])
                        top = u.commit(tree, [tip] if tip in u.objs else [],
                                       1700700000 + j, b"mutator %d\n" % j)
                        u.add_to_store(r.object_store, [blob, tree, top])
                        ever_values.add(top)
                        if mop == "create":
                            name = b"refs/heads/created%d" % j
                        r.refs[name] = top
                    elif mop == "rewind" and heads:
                        name = mrng.choice(heads)
                        tip = r.refs[name]
                        ps = u.parents(tip) if tip in u.objs else []
                        if ps:
                            mut["ref_changing"] = True
                            r.refs[name] = ps[0]
                    elif mop == "delete" and len(heads) > 1:
                        mut["ref_changing"] = True
                        head_t = r.refs.get_symrefs().get(b"HEAD")
                        cands = [n for n in heads if n != head_t]
                        if cands:
                            del r.refs[mrng.choice(cands)]
                    sim.stat("mutator:" + mop)
                  except FileLocked:
                    # someone else holds a lock this step needs: a legal
                    # outcome for the second process, it just does not act
                    sim.stat("mutator_locked_out")
                  except OSError as e:
                    # the second process is not the subject here: e.g. gc's
                    # prune() stats a tmp_pack_* file that the transfer has
                    # just renamed away and fails with FileNotFoundError
                    sim.stat("mutator_failed:" + type(e).__name__)
            finally:
                mut["done"] = True
                r.close()

        def server3_body(a):
            from dulwich.server import FileSystemBackend
            backend = FileSystemBackend()
            nettransport.serve_one(conn3.b, backend, handlers, {})

        def grow_sender():
            """The sender's history moves on between the two fetches."""
            r = Repo(server_path)
            try:
                heads = [n for n in chosen if n.startswith(b"refs/heads/")]
                if not heads:
                    heads = sorted(n for n in srefs
                                   if n.startswith(b"refs/heads/"))[:1]
                    chosen.append(heads[0])
                name = heads[0]
                tip = srefs[name]
                grng = random.Random(derive_seed(plan["seed"], "c05grow"))
                for j in range(second["grow"]):
                    blob = u.blob(b"grown %d %d\n" % (plan["seed"], j))
                    tree = u.tree([(b"g%d.txt" % j, 0o100644, blob)])
                    parents = [tip]
                    if second["side"] and j == 0:
                        old_c = grng.choice(commits)
                        sb = u.blob(b"side %d\n" % plan["seed"])
                        st_ = u.tree([(b"side.txt", 0o100644, sb)])
                        parents.append(u.commit(st_, [old_c], 1700600000,
                                                b"side\n"))
                    tip = u.commit(tree, parents, 1700600100 + j,
                                   b"grown %d\n" % j)
                present = set(r.object_store)
                u.add_to_store(r.object_store,
                               [i for i in sorted(u.closure([tip]))
                                if i not in present])
                from dulwich.file import FileLocked
                for _attempt in range(2000):
                    try:
                        r.refs[name] = tip
                        break
                    except FileLocked:
                        # the mutator holds this ref's lock right now
                        sim.yield_point("harness-wait")
                else:
                    raise RuntimeError("harness: ref stayed locked")
                srefs[name] = tip
            finally:
                r.close()

        def server_body(a):
            from dulwich.server import FileSystemBackend
            backend = FileSystemBackend()
            nettransport.serve_one(conn.b, backend, handlers, sres)

        def server2_body(a):
            from dulwich.server import FileSystemBackend
            backend = FileSystemBackend()
            nettransport.serve_one(conn2.b, backend, handlers, {})

        def mk_client(faulty=True):
            if plan["transport"] == "local":
                c = LocalGitClient(thin_packs=True,
                                   include_tags=plan["include_tags"])
            elif plan["transport"] == "http":
                c = nettransport.make_http_client(
                    sim, cur["http"],
                    thin_packs="thin-pack" not in plan["client_drop"],
                    include_tags=plan["include_tags"])
            else:
                c = nettransport.make_client(
                    sim, lambda cmd, path: cur["conn"].a, rbuf=plan["rbuf"],
                    thin_packs="thin-pack" not in plan["client_drop"],
                    include_tags=plan["include_tags"])
            for cap in plan["client_drop"]:
                if hasattr(c, "_fetch_capabilities"):
                    c._fetch_capabilities.discard(cap.encode())
            return c

        def do_transfer(client, a=None, op=op, depth=plan["depth"]):
            path = server_path
            if op == "fetch":
                r = recv if isinstance(recv, MemoryRepo) else Repo(recv_path)
                try:
                    def wants(refs, depth=None):
                        outcome["advertised"] = dict(refs)
                        w = []
                        for n in chosen:
                            v = refs.get(n)
                            if v and v not in w and (
                                    depth or v not in r.object_store):
                                w.append(v)
                        outcome["wants"] = list(w)
                        outcome.setdefault("wants_all", []).extend(w)
                        if plan.get("hostile_want") and w:
                            hidden = [i for i in garbage_ids
                                      if u.type_of(i) == H.COMMIT]
                            if hidden:
                                outcome["hostile"] = hidden[-1]
                                return w + [hidden[-1]]
                        return w
                    if os.environ.get("VERIF_DEBUG_TB"):
                        print("DEBUG fetch depth", depth, "shallow before",
                              sorted(r.get_shallow()))
                    res = client.fetch(path, r, determine_wants=wants,
                                       depth=depth)
                    outcome["result"] = res
                    outcome["shallow"] = set(r.get_shallow())
                    if os.environ.get("VERIF_DEBUG_TB"):
                        print("DEBUG wants", outcome.get("wants"),
                              "shallow after", sorted(outcome["shallow"]),
                              "new_shallow", getattr(res, "new_shallow", None),
                              "new_unshallow",
                              getattr(res, "new_unshallow", None))
                finally:
                    if not isinstance(recv, MemoryRepo):
                        r.close()
            elif op == "clone":
                r = client.clone(path, recv_path, mkdir=True, bare=True,
                                 depth=depth)
                outcome["shallow"] = set(r.get_shallow())
                outcome["cloned_refs"] = {kk: v for kk, v in
                                          r.refs.as_dict().items()}
                r.close()
            else:
                r = Repo(sender_path)
                try:
                    def update_refs(remote):
                        outcome["advertised"] = dict(remote)
                        # a callback may as well edit the dict it is handed
                        new = remote if plan["seed"] % 3 == 0 else \
                            dict(remote)
                        for n in chosen:
                            new[n] = srefs[n]
                        return new
                    res = client.send_pack(path, update_refs,
                                           r.generate_pack_data)
                    outcome["result"] = res
                finally:
                    r.close()

        def client_body(a):
            try:
                do_transfer(mk_client())
                outcome["ok"] = True
            except (HangupException, GitProtocolError, OSError,
                    SendPackError, AssertionError, KeyError, ValueError,
                    EOFError) as e:
                outcome["error"] = e
            finally:
                if conn is not None:
                    conn.a.close()
            if second and outcome.get("ok"):
                outcome.pop("ok")
                outcome["first_tips"] = list(
                    outcome.get("wants_all") or []) + list(
                    (outcome.get("cloned_refs") or {}).values())
                nf0 = len(sim.fired)
                try:
                    grow_sender()
                    cur["conn"] = conn3
                    df = second.get("disk_fault")
                    if df:
                        sim.faults[(a.name, a.mcount + df["nth"])] = df["kind"]
                    do_transfer(mk_client(), op="fetch",
                                depth=second["depth"])
                    outcome["ok"] = True
                    outcome["second_done"] = True
                except (HangupException, GitProtocolError, OSError,
                        SendPackError, AssertionError, KeyError, ValueError,
                        EOFError) as e:
                    outcome["error"] = e
                    outcome["second_failed"] = True
                if len(sim.fired) > nf0:
                    sim.stat("fault:disk-" + sim.fired[nf0][2] + "@" +
                             sim.fired[nf0][3])
                    outcome["second_disk_fault"] = sim.fired[nf0]
            if conn3 is not None:
                conn3.a.close()
            if http2 is not None and "error" in outcome and op != "clone":
                outcome["first_error"] = outcome.pop("error")
                outcome["state_after_failure"] = _receiver_state()
                outcome.pop("wants_all", None)  # nothing of it arrived
                cur["http"] = http2
                try:
                    do_transfer(mk_client())
                    outcome["ok"] = True
                    outcome["retried"] = True
                except Exception as e:  # noqa: BLE001
                    outcome["error"] = e
                    outcome["retry_failed"] = True
            if conn2 is not None:
                if "error" in outcome and op != "clone":
                    # bounded liveness: the same operation, faults off
                    outcome["first_error"] = outcome.pop("error")
                    outcome["state_after_failure"] = _receiver_state()
                    outcome.pop("wants_all", None)  # nothing of it arrived
                    cur["conn"] = conn2
                    try:
                        do_transfer(mk_client())
                        outcome["ok"] = True
                        outcome["retried"] = True
                    except Exception as e:  # noqa: BLE001
                        outcome["error"] = e
                        outcome["retry_failed"] = True
                conn2.a.close()

        def _receiver_state():
            if op == "clone" or isinstance(recv, MemoryRepo):
                return None
            rr = Repo(recv_path)
            try:
                return ({kk: v for kk, v in rr.refs.as_dict().items()
                         if kk != b"HEAD"}, store_ids(rr.object_store))
            finally:
                rr.close()

        sim.actor("client", client_body)
        if conn is not None:
            sim.actor("server", server_body)
        if conn2 is not None:
            sim.actor("server2", server2_body)
        if conn3 is not None:
            sim.actor("server3", server3_body)
        if plan.get("mutator"):
            sim.actor("mutator", mutator_body)
        sim.run()
        gc.collect()
        faulted = bool(plan["net"]["faults"]) and plan["transport"] == "net"
        netfired = any(k.startswith(("fault:net-", "fault:http-"))
                       for k in sim.stats)
        if http is not None and (http.server_errors or (
                http2 is not None and http2.server_errors)):
            outcome["server_errors"] = http.server_errors + (
                http2.server_errors if http2 is not None else [])
        if sim.abort_reason:
            viols.append({"sig": f"C05/{sim.abort_reason}/{op}/"
                          f"{'with-fault' if netfired else 'fault-free'}",
                          "detail": f"cap={plan['net']['cap']} "
                          f"steps={sim.steps}"})
        for a in sim.actors:
            if not getattr(a, "virtual", False) and a.exc is not None:
                viols.append({"sig": f"C05/actor-exception/{a.name}/"
                              f"{type(a.exc).__name__}",
                              "detail": repr(a.exc)[:500]})
        simfs.deactivate()
        simfs.activate(simfs.FS(root, None))
        # ------------------------------------------------------- oracle
        if outcome.get("ok"):
            if op == "push":
                rr = Repo(recv_path)
                tips = [srefs[n] for n in chosen]
                status = getattr(outcome.get("result"), "ref_status", None) \
                    or {}
                bad_status = {kk: v for kk, v in status.items() if v}
                if bad_status:
                    viols.append({"sig": "C05/push-rejected-without-cause",
                                  "detail": f"{bad_status}"})
            elif op == "fetch" or outcome.get("second_done"):
                rr = recv if isinstance(recv, MemoryRepo) else Repo(recv_path)
                tips = list(outcome.get("wants_all") or []) + list(
                    (outcome.get("cloned_refs") or {}).values())
                if outcome.get("second_done"):
                    sim.stat("probe:second_fetch_after_growth")
                    if outcome.get("shallow"):
                        sim.stat("probe:fetch_into_shallow_repo")
                # update refs as porcelain.fetch would
                adv = outcome.get("advertised") or {}
                for n in chosen:
                    if adv.get(n):
                        rr.refs[b"refs/remotes/origin/" + n[5:]] = adv[n]
                        tips.append(adv[n])
                # ... which takes them from the result: what the result says
                # the remote's refs are is what was transferred
                res_refs = getattr(outcome.get("result"), "refs", None) or {}
                if not outcome.get("second_done"):
                    for n in chosen:
                        v = res_refs.get(n)
                        if v and adv.get(n) and v != adv[n] and \
                                v not in rr.object_store:
                            viols.append({
                                "sig": "C05/result-names-untransferred-tip/"
                                f"{op}/{plan['transport']}",
                                "detail": f"{n!r}: wanted {adv[n]!r}, the "
                                f"result reports {v!r}, which is absent"})
            else:
                rr = Repo(recv_path)
                tips = list((outcome.get("cloned_refs") or {}).values())
            try:
                shallow = outcome.get("shallow") or set()
                if plan["depth"]:
                    sim.stat("probe:shallow_fetch")
                probs, seen = check_closure(u, rr.object_store, tips, shallow)
                if probs:
                    cls = "bytes-differ" if any(
                        w == "content-differs" for w, _ in probs) else \
                        "incomplete-closure"
                    viols.append({
                        "sig": f"C05/{cls}/{op}/{plan['transport']}" +
                        ("/depth" if plan["depth"] else "") +
                        ("/second" if outcome.get("second_done") else ""),
                        "detail": f"{probs[:4]} tips="
                        f"{[t.decode() for t in tips][:4]} shallow="
                        f"{sorted(shallow)[:3]}"})
                # everything the receiver's refs name is complete
                all_tips = []
                for kk, v in rr.refs.as_dict().items():
                    all_tips.append(v)
                probs2, _ = check_closure(u, rr.object_store, all_tips,
                                          shallow)
                if probs2 and not probs:
                    viols.append({
                        "sig": f"C05/receiver-ref-incomplete/{op}",
                        "detail": f"{probs2[:4]}"})
                # nothing outside the closure of what was asked for arrived
                now_ids = store_ids(rr.object_store)
                new_ids = now_ids - pre_ids
                if new_ids:
                    sim.stat("probe:objects_transferred")
                adv_vals = [v for v in (outcome.get("advertised") or
                                        srefs).values()]
                if op == "push":
                    allowed = u.closure([srefs[n] for n in chosen])
                else:
                    asked = list(outcome.get("wants_all") or [])
                    if op == "clone":
                        asked += list((outcome.get("cloned_refs") or
                                       {}).values())
                    allowed = u.closure(asked)
                    if mut["ref_changing"]:
                        # the refs moved between requests of one operation:
                        # what the client asked for in its POST may be newer
                        # than what it recorded from an earlier advertisement
                        allowed |= u.closure(list(ever_values))
                    if plan["include_tags"] or op == "clone":
                        # tags pointing into the fetched history may follow
                        for n, t in srefs.items():
                            if n.startswith(b"refs/tags/") and \
                                    u.type_of(t) == H.TAG:
                                allowed |= u.closure([t])
                                if t in new_ids and t not in u.closure(asked):
                                    sim.stat("probe:tag_followed")
                stray = sorted(i for i in new_ids
                               if i in u.objs and i not in allowed)
                adv_closure = u.closure(list(set(srefs.values()) |
                                             ever_values))
                if op != "push":
                    # whatever was asked: nothing the sender does not
                    # advertise may arrive
                    stray = sorted(set(stray) | {
                        i for i in new_ids
                        if i in u.objs and i not in adv_closure})
                if stray:
                    unadv = [i for i in stray if i not in adv_closure]
                    cls = "sent-unreachable" if unadv else "sent-unrequested"
                    viols.append({
                        "sig": f"C05/{cls}/{op}/{plan['transport']}",
                        "detail": f"{len(stray)} objects outside the closure "
                        f"of what was asked for, e.g. "
                        f"{[(s.decode(), u.type_of(s)) for s in stray[:3]]}"})
                unknown = sorted(i for i in new_ids if i not in u.objs)
                if unknown:
                    viols.append({"sig": f"C05/unknown-object-arrived/{op}",
                                  "detail": f"{unknown[:3]}"})
            finally:
                if not isinstance(rr, MemoryRepo):
                    rr.close()
        if outcome.get("retried"):
            sim.stat("probe:retry_after_fault_ok")
            sim.stat("probe:failed_transfer")
            st = outcome.get("state_after_failure")
            if st is not None:
                refs_after, ids_after = st
                if refs_after != rrefs and not (
                        op == "push" and _partial_push_ok(refs_after, rrefs,
                                                          srefs, chosen)):
                    viols.append({
                        "sig": f"C05/receiver-refs-changed-after-failure/{op}",
                        "detail": f"{refs_after} vs {rrefs}"})
                if op == "fetch" and ids_after != pre_ids:
                    viols.append({
                        "sig": f"C05/receiver-objects-changed-after-failure/{op}",
                        "detail": f"+{len(ids_after - pre_ids)} "
                        f"-{len(pre_ids - ids_after)} first error "
                        f"{outcome.get('first_error')!r}"})
        if outcome.get("retry_failed") and outcome.get("hostile") is not None:
            sim.stat("probe:hostile_want_refused")
        elif outcome.get("retry_failed") and mut["ref_changing"]:
            sim.stat("probe:failed_after_refs_changed")
        elif outcome.get("retry_failed") and plan.get("mutator"):
            # as for a first attempt: a transfer that *fails* while
            # maintenance runs on the served repository is counted, not
            # alarmed (seen once in 150 000 thorough plans: gc consolidated
            # the pack a push had just installed before its post-install
            # validation re-opened it -> PackFileDisappeared in receive-pack)
            sim.stat("probe:failed_during_maintenance")
            sim.stat("failed_during_maintenance:" +
                     type(outcome.get("error")).__name__)
        elif outcome.get("retry_failed"):
            viols.append({
                "sig": f"C05/no-progress-after-faults/{op}/"
                f"{type(outcome.get('error')).__name__}",
                "detail": f"first {outcome.get('first_error')!r} then "
                f"{outcome.get('error')!r}; server: "
                f"{(outcome.get('server_errors') or [])[-2:]}"})
        if not outcome.get("ok"):
            err = outcome.get("error")
            sim.stat("probe:failed_transfer")
            if outcome.get("retry_failed"):
                pass
            elif outcome.get("hostile") is not None:
                # asking for an unadvertised object is rightly refused
                sim.stat("probe:hostile_want_refused")
            elif mut["ref_changing"]:
                # the served refs changed under a stateless exchange: what
                # was advertised may rightly be refused a moment later
                sim.stat("probe:failed_after_refs_changed")
            elif plan.get("mutator") and not netfired and \
                    not sim.abort_reason:
                # not promised by C05 (C10's reader clause is where a
                # spurious failure under maintenance belongs): counted only
                sim.stat("probe:failed_during_maintenance")
                sim.stat("failed_during_maintenance:" +
                         type(err).__name__)
            elif outcome.get("second_disk_fault") and \
                    not sim.abort_reason:
                # the receiver's disk failed during a later fetch: the fetch
                # may fail, the repository that was complete before stays
                # complete (modulo what its shallow file says *now*)
                sim.stat("probe:disk_fault_during_second_fetch")
                rr = Repo(recv_path)
                try:
                    sh = set(rr.get_shallow())
                    tips2 = list(outcome.get("first_tips") or []) + [
                        v for kk, v in rr.refs.as_dict().items()]
                    probs, _ = check_closure(u, rr.object_store, tips2, sh)
                    if probs:
                        viols.append({
                            "sig": "C05/receiver-incomplete-after-failed-"
                            f"fetch/{plan['transport']}/" + (
                                "unshallow" if second["depth"] == 2147483647
                                else "deepen" if second["depth"] else
                                "plain"),
                            "detail": f"fault {outcome['second_disk_fault']} "
                            f"error {err!r:.100}; {probs[:3]} shallow now "
                            f"{sorted(sh)[:3]} before "
                            f"{sorted(outcome.get('shallow') or [])[:3]}"})
                finally:
                    rr.close()
            elif not netfired and not sim.abort_reason:
                viols.append({
                    "sig": f"C05/failed-without-fault/{op}/"
                    f"{plan['transport']}/{type(err).__name__}" +
                    ("/second" if outcome.get("second_failed") else ""),
                    "detail": repr(err)[:600] + (
                        f" second={second} shallow-before="
                        f"{sorted(outcome.get('shallow') or [])[:3]}"
                        if outcome.get("second_failed") else "")})
            elif op != "clone" and not isinstance(recv, MemoryRepo):
                # failure atomicity: refs and object set unchanged
                rr = Repo(recv_path)
                try:
                    now = {kk: v for kk, v in rr.refs.as_dict().items()
                           if kk != b"HEAD"}
                    if now != rrefs and not (
                            op == "push" and _partial_push_ok(now, rrefs,
                                                              srefs, chosen)):
                        viols.append({
                            "sig": f"C05/receiver-refs-changed-after-failure/{op}",
                            "detail": f"{now} vs {rrefs}"})
                    ids_now = store_ids(rr.object_store)
                    if op == "fetch" and ids_now != pre_ids:
                        viols.append({
                            "sig": f"C05/receiver-objects-changed-after-failure/{op}",
                            "detail": f"+{len(ids_now - pre_ids)} "
                            f"-{len(pre_ids - ids_now)}"})
                    probs, _ = check_closure(u, rr.object_store,
                                             list(now.values()))
                    if probs:
                        viols.append({
                            "sig": f"C05/receiver-broken-after-failure/{op}",
                            "detail": f"{probs[:3]}"})
                finally:
                    rr.close()
        if "result" in outcome:
            outcome.pop("result")
        nontrivial = bool(sim.stats.get("probe:objects_transferred"))
    ih = util.h8([(e[1], e[2], e[3]) for e in sim.events])
    seen = set()
    out = []
    for v in viols:
        if v["sig"] not in seen:
            seen.add(v["sig"])
            out.append(v)
    stats = dict(sim.stats)
    stats["sim_ns"] = sim.clock.advanced
    stats["steps"] = sim.steps
    stats["op:" + op + "/" + plan["transport"]] = 1
    stats["policy:" + plan["sched"].get("policy", "trace")] = 1
    return {"violations": out, "digest": sim.digest(), "ihash": ih,
            "nontrivial": nontrivial, "trace": sim.trace_out, "stats": stats,
            "events": sim.events,
            "sample": {"plan": plan, "events": len(sim.events)}}


_THIN = {"sim": None, "hooked": False}


def _hook_thin(sim):
    """Count thin packs completed by the receiver (probe only)."""
    import dulwich.object_store as OS
    _THIN["sim"] = sim
    if _THIN["hooked"]:
        return
    _THIN["hooked"] = True
    orig = OS.extend_pack

    def wrapped(f, object_ids, *a, **kw):
        if object_ids and _THIN["sim"] is not None:
            _THIN["sim"].stat("probe:thin_pack_completed")
        return orig(f, object_ids, *a, **kw)
    OS.extend_pack = wrapped


def _partial_push_ok(now, before, srefs, chosen):
    """After a connection death a push may have applied any subset of its
    commands (each ref old or new)."""
    for n in set(now) | set(before):
        if now.get(n) == before.get(n):
            continue
        if n in chosen and now.get(n) == srefs[n]:
            continue
        return False
    return True


def shrink(plan):
    def cp():
        return json.loads(json.dumps(plan))
    if plan["n_commits"] > 2:
        p = cp()
        p["n_commits"] -= 1
        yield p
    for k, v in (("garbage", False), ("private", False), ("gitlinks", False),
                 ("big", False), ("include_tags", False), ("depth", None),
                 ("receiver_mem", False), ("sender_layout", "loose"),
                 ("receiver_layout", "loose"), ("client_drop", []),
                 ("server_drop", []), ("rbuf", 8192), ("have_frac", 0.0),
                 ("want_frac", 1.0)):
        if plan.get(k) != v:
            p = cp()
            p[k] = v
            yield p
    if plan["net"]["faults"]:
        p = cp()
        p["net"]["faults"] = []
        yield p
    if plan.get("second"):
        p = cp()
        p["second"] = None
        yield p
        for k, v in (("grow", 1), ("side", False), ("depth", None)):
            if plan["second"][k] != v:
                p = cp()
                p["second"][k] = v
                yield p
    if plan.get("hostile_want"):
        p = cp()
        p["hostile_want"] = False
        yield p
    if plan.get("http_faults"):
        p = cp()
        p["http_faults"] = []
        yield p
    for i in range(len(plan.get("mutator") or [])):
        p = cp()
        del p["mutator"][i]
        yield p
    for k, v in (("cap", None), ("chunk_max", None)):
        if plan["net"][k] != v:
            p = cp()
            p["net"][k] = v
            yield p
