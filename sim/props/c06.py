"""C06 -- a push reports success exactly for the refs it changed; server refs
stay valid.

One server repository, one ReceivePackHandler actor per connection, one or two
pushers racing on the same refs: dulwich's own send_pack, and a scripted raw
pkt-line pusher (written without dulwich.protocol) that can name stale old
values, zero ids and new values that are not in the pack it sends.
LocalGitClient.send_pack is the in-process path.
"""

from __future__ import annotations

import gc
import io
import json
import os
import random

from .. import nettransport, simfs, simnet, util
from ..kernel import Sim, derive_seed
from ..simfs import R
from ..workloads import history as H

PROP_ID = "C06"
LEVEL = "exploration"
RULE = ("seeded plans: server ref state x 1-2 pushers (dulwich send_pack, raw "
        "scripted pusher, LocalGitClient) x command lists (create/update/"
        "delete, stale old values, zero ids, new value absent from the pack, "
        "several refs per push) x {atomic, report-status, side-band-64k, "
        "delete-refs} x syscall- and delivery-level interleaving of the two "
        "pushes, optional reset. Distinct by hash of the event sequence; "
        "non-trivial when at least one command must fail or two pushes "
        "overlap.")
ASSUMPTIONS = [
    "each per-ref command is a CAS old->new with a unique new value; the "
    "reported statuses must be explained by one CAS chain per ref ending in "
    "the server's final value",
    "a push that died from an injected reset has no status; its commands may "
    "have taken effect or not",
    "receive-pack hooks are not configured",
]
COMPONENTS = {
    "real": ["dulwich.server.ReceivePackHandler (_apply_pack, report status)",
             "dulwich.client send_pack / LocalGitClient.send_pack / "
             "ReportStatusParser", "dulwich.refs", "dulwich.object_store "
             "add_thin_pack"],
    "stub": ["TCP socket (simnet)", "scheduler", "second pusher's wire codec "
             "(independent pkt-line implementation)", "clock"],
}
PROBES = {"stale_old_value_sent": 1, "missing_object_sent": 1,
          "two_pushers_overlap": 1, "atomic_with_failure": 1,
          "push_ng_reported": 1, "cas_lost_race": 1,
          "invalid_ref_name_sent": 1}
MIN_BUDGET = 150

ZERO = b"0" * 40
A, B, C_ = b"refs/heads/a", b"refs/heads/b", b"refs/heads/c"
# refs/heads/a/sub collides, as file versus directory, with refs/heads/a: a
# command that passes every check and still fails when it is applied
ASUB = b"refs/heads/a/sub"
NAMES = [A, B, C_, ASUB]
BADREF = b"refs/heads/bad..name"


def budget(tier):
    return 8000 if tier == "quick" else 400000


def gen_longlived(seed):
    """One long-lived server process (a Repo held by a DictBackend) serves
    pushes one after another while *another process* deletes branches and
    runs maintenance on the same directory in between."""
    rng = random.Random(derive_seed(seed, "c06ll"))
    steps = []
    for _ in range(rng.randint(2, 5)):
        steps.append({"op": "push", "what": rng.choice(["topic", "topic",
                                                        "topic2", "delete"])})
        if rng.random() < 0.8:
            steps.append({"op": "other", "do": rng.sample(
                ["delete_topic", "gc_now", "gc_now", "repack", "pack_loose",
                 "pack_refs", "gc_default"], rng.randint(1, 3))})
    return {"kind": "longlived", "seed": seed, "steps": steps,
            "layout": rng.choice(["loose", "packed"]),
            "warm": rng.random() < 0.5,
            "sched": {"policy": "sequential"}}


def gen_plan(seed, tier):
    if seed % 20 == 13:
        return gen_longlived(seed)
    rng = random.Random(derive_seed(seed, "c06plan"))
    pol = rng.choice(["uniform", "burst", "burst", "targeted", "pct"])
    sched = {"policy": pol}
    if pol == "burst":
        sched["p_switch"] = rng.choice([0.02, 0.1, 0.3])
    if pol == "targeted":
        sched["p_hot"] = rng.choice([0.3, 0.7])
        sched["p_cold"] = rng.choice([0.02, 0.1])
    if pol == "pct":
        sched["depth"] = rng.choice([1, 2, 3])
        sched["est_steps"] = rng.choice([200, 1000])
    npush = rng.choice([1, 2, 2])
    pushers = []
    for i in range(npush):
        kind = rng.choice(["dulwich", "raw", "raw", "local"])
        cmds = []
        for n in rng.sample(NAMES, rng.choice([1, 1, 2, 3, 4])):
            cmd = {"ref": n.decode()}
            # "missing_same": several refs of one push are moved to one
            # and the same object that the server lacks and the pack omits
            cmd["new"] = rng.choice(["commit", "commit", "commit", "delete",
                                     "missing", "missing_same",
                                     "missing_same"]) if kind == "raw" else \
                rng.choice(["commit", "commit", "commit", "delete"])
            cmd["old"] = rng.choice(["adv", "adv", "adv", "stale", "zero"]) \
                if kind == "raw" else "adv"
            cmds.append(cmd)
        if rng.random() < 0.1:
            # one command names a ref that must be refused; where in the
            # list it stands decides what has been applied by then
            cmds.insert(rng.randrange(len(cmds) + 1),
                        {"ref": BADREF.decode(), "new": "commit",
                         "old": "zero"})
        pushers.append({
            "name": f"p{i}", "kind": kind, "cmds": cmds,
            "atomic": rng.random() < 0.35,
            "sideband": rng.random() < 0.5,
            "report": True if kind != "raw" else rng.random() < 0.9,
            "delete_refs_cap": rng.random() < 0.9,
        })
    faults = []
    if rng.random() < 0.12:
        faults.append({"conn": rng.randrange(npush),
                       "dir": rng.choice(["a2b", "b2a"]),
                       "at": rng.choice([0, 50, 200, 400, 800, 2000]),
                       "kind": "reset"})
    init = {}
    for n in (A, B, C_):
        if rng.random() < 0.65:
            init[n.decode()] = rng.randrange(3)
    packed = rng.random() < 0.3
    if rng.random() < 0.15:
        # every pusher deletes (or moves) its own ref, all of them living in
        # packed-refs: the rewrites of that one file must not lose each other
        packed = True
        init = {n.decode(): rng.randrange(3) for n in (A, B, C_)}
        while len(pushers) < 2:
            pushers.append(dict(pushers[0], name=f"p{len(pushers)}"))
        names = rng.sample([A, B, C_], len(pushers))
        for pu, n in zip(pushers, names):
            pu["cmds"] = [{"ref": n.decode(), "old": "adv",
                           "new": rng.choice(["delete", "delete", "commit"])}]
            pu["delete_refs_cap"] = True
            pu["report"] = True
    return {"kind": "push", "seed": seed, "sched": sched, "pushers": pushers,
            "init": init, "packed_refs": packed,
            "net": {"cap": rng.choice([None, None, 65536]),
                    "chunk_max": rng.choice([None, 1, 50, 1000]),
                    "faults": faults}}


# ---------------------------------------------- independent wire helpers
def _read_exact(ep, n):
    buf = b""
    while len(buf) < n:
        d = ep.recv(n - len(buf))
        if not d:
            raise EOFError("connection closed")
        buf += d
    return buf


def read_pkt(ep):
    ln = int(_read_exact(ep, 4), 16)
    if ln == 0:
        return None
    return _read_exact(ep, ln - 4)


def pkt(data):
    return b"0000" if data is None else b"%04x" % (len(data) + 4) + data


def raw_push(ep, server_path, spec, cmd_values, pack_bytes):
    """Speak receive-pack by hand. -> dict(ref -> 'ok' | 'ng ...'),
    unpack status; raises EOFError/ConnectionResetError on death."""
    ep.sendall(pkt(b"git-receive-pack " + server_path.encode() +
                   b"\0host=sim\0"))
    adv = {}
    caps = None
    while True:
        line = read_pkt(ep)
        if line is None:
            break
        line = line.rstrip(b"\n")
        if caps is None:
            line, _, c = line.partition(b"\0")
            caps = c.split(b" ")
        sha, _, name = line.partition(b" ")
        adv[name] = sha
    cmds = cmd_values(adv)
    if not cmds:
        ep.sendall(pkt(None))
        return {}, None, adv
    mycaps = []
    if spec["report"]:
        mycaps.append(b"report-status")
    if spec["sideband"]:
        mycaps.append(b"side-band-64k")
    if spec["atomic"]:
        mycaps.append(b"atomic")
    if spec["delete_refs_cap"]:
        mycaps.append(b"delete-refs")
    mycaps.append(b"ofs-delta")
    first = True
    out = b""
    for (old, new, ref) in cmds:
        line = old + b" " + new + b" " + ref
        if first:
            line += b"\0" + b" ".join(mycaps)
            first = False
        out += pkt(line + b"\n")
    out += pkt(None)
    ep.sendall(out)
    if any(new != ZERO for (_, new, _) in cmds):
        ep.sendall(pack_bytes)
    ep.close_write()
    if not spec["report"]:
        # wait for the server to hang up
        while ep.recv(4096):
            pass
        return None, None, adv
    # read the report (possibly side-band wrapped)
    lines = []
    if spec["sideband"]:
        buf = b""
        while True:
            p = read_pkt(ep)
            if p is None:
                break
            if p[:1] == b"\x01":
                buf += p[1:]
        pos = 0
        while pos < len(buf):
            ln = int(buf[pos:pos + 4], 16)
            if ln == 0:
                pos += 4
                continue
            lines.append(buf[pos + 4:pos + ln])
            pos += ln
    else:
        while True:
            p = read_pkt(ep)
            if p is None:
                break
            lines.append(p)
    status = {}
    unpack = None
    for ln in lines:
        ln = ln.rstrip(b"\n")
        if ln.startswith(b"unpack "):
            unpack = ln[7:]
        elif ln.startswith(b"ok "):
            status[ln[3:]] = "ok"
        elif ln.startswith(b"ng "):
            name, _, why = ln[3:].partition(b" ")
            status[name] = "ng " + why.decode("utf-8", "replace")
    return status, unpack, adv


def run_longlived(plan):
    from dulwich.gc import garbage_collect
    from dulwich.object_format import DEFAULT_OBJECT_FORMAT
    from dulwich.pack import write_pack_objects
    from dulwich.protocol import ReceivableProtocol, pkt_line
    from dulwich.repo import Repo
    from dulwich.server import DictBackend, ReceivePackHandler
    sim = Sim(seed=plan["seed"], sched={"policy": "sequential"},
              clock={"step_lo_ns": 1000, "step_hi_ns": 100000},
              step_cap=2_000_000)
    viols = []
    stats = {}
    z = b"0" * 40

    def viol(sig, detail):
        viols.append({"sig": "C06/" + sig, "detail": str(detail)[:600]})

    with util.Sandbox() as root:
        fs = simfs.FS(root, sim)
        simfs.activate(fs)
        rng = random.Random(derive_seed(plan["seed"], "c06llb"))
        u = H.Universe()
        base = H.gen_history(u, rng, 2, salt=b"LB", tags=False)
        top0 = base["commits"][-1]
        chains = {}
        for nm, salt in (("topic", b"LT"), ("topic2", b"LU")):
            h = H.gen_history(u, rng, 2, salt=salt, tags=False)
            c1 = u.commit(h["trees_of"][h["commits"][0]], [top0],
                          1700400000, b"one " + salt + b"\n")
            c2 = u.commit(h["trees_of"][h["commits"][-1]], [c1],
                          1700400100, b"two " + salt + b"\n")
            chains[nm] = c2
        sp = os.path.join(root, "server")
        r0 = util.init_repo(sp, bare=True)
        u.add_to_store(r0.object_store, sorted(u.closure([top0])))
        if plan["layout"] == "packed":
            r0.object_store.pack_loose_objects()
        r0.refs[b"refs/heads/main"] = top0
        r0.refs.set_symbolic_ref(b"HEAD", b"refs/heads/main")
        r0.close()

        def body(a):
            server = Repo(sp)          # lives as long as the run
            backend = DictBackend({b"/": server})
            try:
                for si, st in enumerate(plan["steps"]):
                    if st["op"] == "other":
                        o = Repo(sp)   # the other process
                        try:
                            for d in st["do"]:
                                try:
                                    if d == "delete_topic":
                                        for n in (b"refs/heads/topic",
                                                  b"refs/heads/topic2"):
                                            o.refs.remove_if_equals(n, None)
                                    elif d == "gc_now":
                                        garbage_collect(o, grace_period=None)
                                    elif d == "gc_default":
                                        garbage_collect(o)
                                    elif d == "repack":
                                        o.object_store.repack()
                                    elif d == "pack_loose":
                                        o.object_store.pack_loose_objects()
                                    elif d == "pack_refs":
                                        o.refs.pack_refs(all=True)
                                    stats["probe:other_process_between_"
                                          "pushes"] = 1
                                except Exception as e:  # noqa: BLE001
                                    stats["other_step_failed:" +
                                          type(e).__name__] = 1
                        finally:
                            o.close()
                        continue
                    fresh = Repo(sp)
                    try:
                        cur = {n: fresh.refs.read_ref(n) for n in
                               (b"refs/heads/topic", b"refs/heads/topic2")}
                    finally:
                        fresh.close()
                    if st["what"] == "delete":
                        name = b"refs/heads/topic"
                        if cur[name] is None:
                            continue
                        old, new, ids = cur[name], z, []
                    else:
                        name = b"refs/heads/" + st["what"].encode()
                        new = chains[st["what"]]
                        old = cur[name] or z
                        if old == new:
                            continue
                        # the client sends what the advertisement does not
                        # cover: everything above main
                        ids = sorted(u.closure([new]) - u.closure([top0]))
                    f = io.BytesIO()
                    write_pack_objects(f.write,
                                       [(u.shaobjs[i], None) for i in ids],
                                       DEFAULT_OBJECT_FORMAT)
                    req = pkt_line(old + b" " + new + b" " + name +
                                   b"\0report-status delete-refs") + b"0000"
                    inp = io.BytesIO(req + (f.getvalue() if ids else b""))
                    outb = []
                    proto = ReceivableProtocol(inp.read, outb.append,
                                               rbufsize=4096)
                    if plan["warm"]:
                        list(server.object_store.packs)
                    try:
                        ReceivePackHandler(backend, [b"/"], proto).handle()
                        reply = b"".join(outb)
                    except Exception as e:  # noqa: BLE001
                        # the server process died on this request: the
                        # client sees a hang-up, nothing may have changed
                        stats["server_died:" + type(e).__name__] = 1
                        reply = None
                    ok = reply is not None and (b"ok " + name) in reply
                    stats["probe:push_through_long_lived_server"] = 1
                    chk = Repo(sp)
                    try:
                        now = chk.refs.read_ref(name)
                        want = None if new == z else new
                        if ok and now != want:
                            viol("ok-but-unchanged/longlived",
                                 f"step {si}: {name!r} reported ok, holds "
                                 f"{now!r} instead of {want!r}")
                        if not ok and now != cur[name]:
                            viol("ng-but-changed/longlived",
                                 f"step {si}: {name!r} not reported ok, "
                                 f"moved from {cur[name]!r} to {now!r}")
                        for rn in sorted(chk.refs.allkeys()):
                            try:
                                v = chk.refs[rn]
                            except KeyError:
                                continue
                            bad = [(w, i) for i in sorted(u.closure([v]))
                                   for w in [u.intact_in(chk.object_store, i)]
                                   if w] if v in u.objs else (
                                [] if v in chk.object_store
                                else [("missing", v)])
                            if bad:
                                viol("ref-names-missing-object/longlived",
                                     f"step {si}: after the push of "
                                     f"{name!r} (ok={ok}) {rn!r} -> {v!r}: "
                                     f"{bad[:3]}")
                                return
                    finally:
                        chk.close()
            finally:
                server.close()

        act = sim.run_inline("main", body)
        gc.collect()
        simfs.deactivate()
        if act.exc is not None:
            viol(f"harness-or-unexpected-exception/{type(act.exc).__name__}",
                 repr(act.exc)[:400])
    seen = set()
    out = []
    for v in viols:
        if v["sig"] not in seen:
            seen.add(v["sig"])
            out.append(v)
    stats["sim_ns"] = sim.clock.advanced
    stats["policy:sequential"] = 1
    stats["kind:longlived"] = 1
    return {"violations": out, "digest": sim.digest(),
            "ihash": util.h8([plan["steps"], plan["layout"], plan["warm"]]),
            "nontrivial": bool(stats.get(
                "probe:other_process_between_pushes")),
            "trace": None, "stats": stats, "events": sim.events,
            "sample": {"plan": plan}}


def run_plan(plan):
    if plan.get("kind") == "longlived":
        return run_longlived(plan)
    from dulwich.client import LocalGitClient
    from dulwich.errors import (GitProtocolError, HangupException,
                                SendPackError)
    from dulwich.object_format import DEFAULT_OBJECT_FORMAT
    from dulwich.pack import write_pack_objects
    from dulwich.repo import Repo
    from dulwich.server import FileSystemBackend
    sim = Sim(seed=plan["seed"], sched=plan["sched"],
              clock={"step_lo_ns": 1000, "step_hi_ns": 100000},
              step_cap=400000)
    viols = []
    rng = random.Random(derive_seed(plan["seed"], "c06build"))
    with util.Sandbox() as root:
        fs = simfs.FS(root, sim)
        simfs.activate(fs)
        u = H.Universe()
        base = H.gen_history(u, rng, 3, salt=b"BASE", tags=False, merges=False)
        server_path = os.path.join(root, "server")
        srv = util.init_repo(server_path, bare=True)
        base_ids = sorted(u.closure(base["commits"]))
        u.add_to_store(srv.object_store, base_ids)
        init = {}
        for n, idx in plan["init"].items():
            init[n.encode()] = base["commits"][min(idx,
                                                   len(base["commits"]) - 1)]
        for n, v in sorted(init.items()):
            srv.refs[n] = v
        srv.refs[b"refs/heads/keep"] = base["commits"][0]
        srv.refs.set_symbolic_ref(b"HEAD", b"refs/heads/keep")
        if plan["packed_refs"]:
            srv.refs.pack_refs(all=True)
        srv.close()
        handlers = nettransport.restricted_handlers([])
        conns = []
        results = []  # per pusher
        nfaults = plan["net"]["faults"]
        for i, spec in enumerate(plan["pushers"]):
            # every pusher gets its own fresh commits (unique new values)
            newvals = {}
            for j, c in enumerate(spec["cmds"]):
                hb = H.gen_history(u, rng, 1, salt=b"P%d_%d" % (i, j),
                                   tags=False)
                parent = [base["commits"][-1]] if rng.random() < 0.7 else []
                newvals[c["ref"]] = u.commit(
                    hb["trees_of"][hb["commits"][-1]], parent,
                    1700600000 + i * 100 + j, b"push %d %d\n" % (i, j))
            res = {"spec": spec, "newvals": newvals, "status": None,
                   "cmds": None, "error": None, "inv": None, "ret": None}
            results.append(res)
            if spec["kind"] == "local":
                conns.append(None)
            else:
                conns.append(simnet.Conn(
                    sim, f"c{i}", cap=plan["net"]["cap"],
                    chunk_max=plan["net"]["chunk_max"],
                    faults=[f for f in nfaults if f["conn"] == i]))

        def server_actor(i):
            def body(a):
                nettransport.serve_one(conns[i].b, FileSystemBackend(),
                                       handlers, {})
            return body

        def values_for(spec, res, adv):
            """-> list of (old, new, ref) using what was advertised."""
            cmds = []
            for c in spec["cmds"]:
                ref = c["ref"].encode()
                cur = adv.get(ref, ZERO)
                if c["old"] == "adv":
                    old = cur
                elif c["old"] == "zero":
                    old = ZERO
                else:
                    old = base["commits"][1] if cur != base["commits"][1] \
                        else base["commits"][2]
                    sim.stat("probe:stale_old_value_sent")
                if c["new"] == "delete":
                    new = ZERO
                    if old == ZERO and cur == ZERO:
                        continue  # deleting nothing: not a command
                elif c["new"] == "missing":
                    # a commit the server does not have and the pack omits
                    new = res["newvals"][c["ref"]]
                    sim.stat("probe:missing_object_sent")
                elif c["new"] == "missing_same":
                    if "shared_missing" in res:
                        sim.stat("probe:same_missing_object_twice")
                    new = res.setdefault("shared_missing",
                                         res["newvals"][c["ref"]])
                    sim.stat("probe:missing_object_sent")
                else:
                    new = res["newvals"][c["ref"]]
                if ref == BADREF:
                    sim.stat("probe:invalid_ref_name_sent")
                cmds.append((old, new, ref))
            res["cmds"] = cmds
            return cmds

        def pusher_actor(i):
            spec = plan["pushers"][i]
            res = results[i]

            def body(a):
                res["inv"] = sim.stamp()
                try:
                    if spec["kind"] == "raw":
                        send_ids = []
                        for c in spec["cmds"]:
                            if c["new"] == "commit":
                                send_ids += sorted(u.closure(
                                    [res["newvals"][c["ref"]]]) -
                                    set(base_ids))
                        f = io.BytesIO()
                        write_pack_objects(
                            f.write, [(u.shaobjs[x], None)
                                      for x in dict.fromkeys(send_ids)],
                            DEFAULT_OBJECT_FORMAT)
                        status, unpack, adv = raw_push(
                            conns[i].a, server_path, spec,
                            lambda adv: values_for(spec, res, adv),
                            f.getvalue())
                        if status is not None and unpack not in (None, b"ok"):
                            # the server refused the pack: no command of this
                            # push was accepted
                            status = dict(status)
                            for (_o, _n, ref_) in res["cmds"] or []:
                                status.setdefault(
                                    ref_, "ng unpack failed: " +
                                    unpack.decode("utf-8", "replace")[:60])
                        res["status"] = status
                        res["unpack"] = unpack
                    else:
                        crepo_path = os.path.join(root, f"client{i}")
                        cr = util.init_repo(crepo_path)
                        u.add_to_store(cr.object_store, base_ids)
                        for c in spec["cmds"]:
                            if c["new"] != "delete":
                                u.add_to_store(cr.object_store, sorted(
                                    u.closure([res["newvals"][c["ref"]]])))
                        if spec["kind"] == "local":
                            client = LocalGitClient()
                        else:
                            client = nettransport.make_client(
                                sim, lambda cmd, path: conns[i].a)
                            if not spec["sideband"]:
                                client._send_capabilities.discard(
                                    b"side-band-64k")

                        def update_refs(remote):
                            adv = {k: v for k, v in remote.items()}
                            cmds = values_for(spec, res, adv)
                            new = dict(remote)
                            for (old, newv, ref) in cmds:
                                new[ref] = newv
                            return new
                        try:
                            r = client.send_pack(
                                server_path, update_refs,
                                cr.generate_pack_data,
                                atomic=spec["atomic"])
                            st = {}
                            rs = getattr(r, "ref_status", None) or {}
                            for (old, newv, ref) in res["cmds"] or []:
                                msg = rs.get(ref)
                                st[ref] = "ok" if msg is None else \
                                    "ng " + str(msg)
                            res["status"] = st
                        finally:
                            cr.close()
                except (EOFError, ConnectionResetError, BrokenPipeError,
                        HangupException, GitProtocolError, SendPackError,
                        OSError) as e:
                    res["error"] = repr(e)[:300]
                finally:
                    res["ret"] = sim.stamp()
                    if conns[i] is not None:
                        conns[i].a.close()
            return body

        for i, spec in enumerate(plan["pushers"]):
            sim.actor(spec["name"], pusher_actor(i))
            if conns[i] is not None:
                sim.actor(f"srv{i}", server_actor(i))
        sim.run()
        gc.collect()
        netfired = any(k.startswith("fault:net-") for k in sim.stats)
        if sim.abort_reason:
            viols.append({"sig": f"C06/{sim.abort_reason}/" +
                          ("with-fault" if netfired else "fault-free"),
                          "detail": f"steps={sim.steps}"})
        for a in sim.actors:
            if not getattr(a, "virtual", False) and a.exc is not None:
                viols.append({"sig": f"C06/actor-exception/{a.name[:3]}/"
                              f"{type(a.exc).__name__}",
                              "detail": repr(a.exc)[:500]})
        simfs.deactivate()
        simfs.activate(simfs.FS(root, None))
        # ------------------------------------------------------ oracle
        fr = Repo(server_path)
        try:
            final = {k: v for k, v in fr.refs.as_dict().items()}
            # (ii) every server ref names an object the server has
            for n, v in sorted(final.items()):
                if n == b"HEAD":
                    continue
                if v in u.objs:
                    w = u.intact_in(fr.object_store, v)
                else:
                    w = None if v in fr.object_store else "missing"
                if w:
                    viols.append({
                        "sig": "C06/dangling-server-ref",
                        "detail": f"{n!r} -> {v.decode()} is {w}; pushes="
                        f"{_brief(results)}"})
            # (i) CAS chains
            overlap = len(results) == 2 and all(
                r["inv"] is not None for r in results) and \
                results[0]["inv"] < results[1]["ret"] and \
                results[1]["inv"] < results[0]["ret"]
            if overlap:
                sim.stat("probe:two_pushers_overlap")
            for n in NAMES:
                ok_cmds = []
                maybe = []
                ng_cmds = []
                for r in results:
                    for (old, new, ref) in r["cmds"] or []:
                        if ref != n:
                            continue
                        st = (r["status"] or {}).get(ref) if \
                            r["status"] is not None else None
                        if r["status"] is None or (
                                r["error"] and st is None):
                            maybe.append((old, new, r["spec"]["name"]))
                        elif st == "ok":
                            ok_cmds.append((old, new, r["spec"]["name"]))
                        elif st is None:
                            viols.append({
                                "sig": "C06/status-missing",
                                "detail": f"{r['spec']['name']} got no "
                                f"status for {ref!r}: {r['status']}"})
                        else:
                            ng_cmds.append((old, new, r["spec"]["name"], st))
                            sim.stat("probe:push_ng_reported")
                v0 = init.get(n, ZERO)
                vend = final.get(n, ZERO)
                if not _chain_ok(v0, vend, ok_cmds, maybe):
                    cls = "ok-but-unchanged"
                    if any(vend == new and new != v0
                           for (_, new, _, _) in ng_cmds):
                        cls = "ng-but-changed"
                        if overlap and any(
                                vend == new and "atomic push failed" in s_
                                for (_, new, _, s_) in ng_cmds):
                            # an atomic push undone after a racing writer got
                            # in: the undo itself lost a race
                            cls = "atomic-rollback-incomplete"
                    elif overlap and _chain_ok(
                            v0, vend, ok_cmds, maybe + [
                                e_ for (o, w, p_, s_) in ng_cmds
                                if "atomic push failed" in s_
                                for e_ in ((o, w, p_), (w, o, p_))]):
                        # the chain only closes if a command of an atomic
                        # push that was *reported failed* took effect for a
                        # while: another pusher's update was conditioned on
                        # the value it wrote before it was undone
                        cls = "atomic-rollback-incomplete"
                    elif len(ok_cmds) >= 2 and len(
                            {o for (o, _, _) in ok_cmds}) < len(ok_cmds):
                        cls = "double-cas-success"
                    kinds = "+".join(sorted({r["spec"]["kind"]
                                             for r in results}))
                    viols.append({
                        "sig": f"C06/{cls}/{kinds}" +
                        ("/race" if overlap else "/sequential"),
                        "detail": f"{n!r}: initial {v0[:8]} final {vend[:8]} "
                        f"ok={[(o[:8], w[:8], p) for o, w, p in ok_cmds]} "
                        f"ng={[(o[:8], w[:8], p, s) for o, w, p, s in ng_cmds]} "
                        f"maybe={[(o[:8], w[:8], p) for o, w, p in maybe]}"})
                if ng_cmds and overlap:
                    sim.stat("probe:cas_lost_race")
            # a name that no backend may accept
            if BADREF in final:
                viols.append({"sig": "C06/invalid-ref-created",
                              "detail": f"{BADREF!r} exists on the server"})
            for r in results:
                if (r["status"] or {}).get(BADREF) == "ok":
                    viols.append({"sig": "C06/invalid-ref-reported-ok/" +
                                  r["spec"]["kind"],
                                  "detail": f"{r['status']}"})
                # a push that dies without any fault having been injected:
                # no report at all, whatever it had applied by then
                if r["error"] and not netfired and not sim.abort_reason \
                        and not plan["net"]["faults"]:
                    sim.stat("probe:push_died_without_fault")
                    exc = r["error"].split("(", 1)[0]
                    viols.append({
                        "sig": f"C06/push-died-without-fault/"
                        f"{r['spec']['kind']}/{exc}",
                        "detail": f"{r['spec']['name']} "
                        f"atomic={r['spec']['atomic']} cmds="
                        f"{[(o[:8], n_[:8], f) for o, n_, f in r['cmds'] or []]}"
                        f" error={r['error']}"})
            # (iii) atomic pushes are all-or-nothing
            for r in results:
                if not r["spec"]["atomic"] or r["status"] is None or \
                        r["error"]:
                    continue
                sts = [(r["status"] or {}).get(ref) for (_, _, ref) in
                       r["cmds"] or []]
                if any(s != "ok" for s in sts):
                    sim.stat("probe:atomic_with_failure")
                applied = [final.get(ref, ZERO) == new and
                           init.get(ref, ZERO) != new
                           for (_, new, ref) in r["cmds"] or []]
                if any(s == "ok" for s in sts) and any(
                        s != "ok" for s in sts):
                    viols.append({
                        "sig": "C06/atomic-partial/status/" +
                        r["spec"]["kind"] + ("/race" if overlap
                                             else "/sequential"),
                        "detail": f"{r['spec']['name']}: {r['status']} "
                        f"cmds={[(o[:8], n_[:8], f) for o, n_, f in r['cmds']]}"})
                elif all(s != "ok" for s in sts) and len(results) == 1 and \
                        any(applied):
                    viols.append({
                        "sig": "C06/atomic-partial/applied-but-failed/" +
                        r["spec"]["kind"],
                        "detail": f"{r['status']}"})
        finally:
            fr.close()
        nontrivial = any(c["old"] != "adv" or c["new"].startswith("missing")
                         for p in plan["pushers"] for c in p["cmds"]) or \
            bool(sim.stats.get("probe:two_pushers_overlap"))
    ih = util.h8([(e[1], e[2], e[3]) for e in sim.events])
    seen = set()
    out = []
    for v in viols:
        if v["sig"] not in seen:
            seen.add(v["sig"])
            out.append(v)
    stats = dict(sim.stats)
    stats["sim_ns"] = sim.clock.advanced
    stats["steps"] = sim.steps
    stats["policy:" + plan["sched"].get("policy", "trace")] = 1
    for p in plan["pushers"]:
        stats["pusher:" + p["kind"]] = stats.get("pusher:" + p["kind"], 0) + 1
    return {"violations": out, "digest": sim.digest(), "ihash": ih,
            "nontrivial": nontrivial, "trace": sim.trace_out, "stats": stats,
            "events": sim.events,
            "sample": {"plan": plan, "outcomes": _brief(results)}}


def _brief(results):
    out = []
    for r in results:
        out.append({"pusher": r["spec"]["name"], "kind": r["spec"]["kind"],
                    "atomic": r["spec"]["atomic"],
                    "cmds": [(o[:8].decode(), n[:8].decode(), f.decode())
                             for o, n, f in r["cmds"] or []],
                    "status": {k.decode(): v for k, v in
                               (r["status"] or {}).items()}
                    if r["status"] is not None else None,
                    "error": r["error"]})
    return out


def _chain_ok(v0, vend, ok_cmds, maybe):
    """Is there an order using every ok command once (and any subset of the
    maybe commands) that is a valid CAS chain from v0 to vend?"""
    def rec(cur, oks, mays):
        if not oks and cur == vend:
            return True
        for i, (o, n, _) in enumerate(oks):
            if o == cur:
                if rec(n, oks[:i] + oks[i + 1:], mays):
                    return True
        for i, (o, n, _) in enumerate(mays):
            if o == cur:
                if rec(n, oks, mays[:i] + mays[i + 1:]):
                    return True
        return False
    return rec(v0, list(ok_cmds), list(maybe))


def shrink(plan):
    def cp():
        return json.loads(json.dumps(plan))
    if plan.get("kind") == "longlived":
        for i in range(len(plan["steps"]) - 1, -1, -1):
            p = cp()
            del p["steps"][i]
            yield p
        for i, st in enumerate(plan["steps"]):
            if st["op"] == "other" and len(st["do"]) > 1:
                for j in range(len(st["do"])):
                    p = cp()
                    del p["steps"][i]["do"][j]
                    yield p
        return
    if len(plan["pushers"]) > 1:
        for i in range(len(plan["pushers"])):
            p = cp()
            del p["pushers"][i]
            p["net"]["faults"] = [f for f in p["net"]["faults"]
                                  if f["conn"] < len(p["pushers"])]
            yield p
    for i, pu in enumerate(plan["pushers"]):
        for j in range(len(pu["cmds"])):
            if len(pu["cmds"]) > 1:
                p = cp()
                del p["pushers"][i]["cmds"][j]
                yield p
        for k, v in (("atomic", False), ("sideband", False)):
            if pu[k] != v:
                p = cp()
                p["pushers"][i][k] = v
                yield p
    if plan["net"]["faults"]:
        p = cp()
        p["net"]["faults"] = []
        yield p
    if plan["packed_refs"]:
        p = cp()
        p["packed_refs"] = False
        yield p
    for k, v in (("cap", None), ("chunk_max", None)):
        if plan["net"][k] != v:
            p = cp()
            p["net"][k] = v
            yield p
