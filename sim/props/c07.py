"""C07 -- lock files give mutual exclusion and all-or-nothing replacement.

(a) "gitfile": 2-3 writer actors (+0-2 readers) run the GitFile protocol on
    one path under a seeded syscall-level schedule with optional injected
    errors; ownership of ``<path>.lock`` is tracked by the shim from the
    system calls themselves and invariants are evaluated at every call.
(b) "sweep": for one dulwich routine that writes through the lock protocol,
    every mutating call in turn raises one error kind (exhaustive over the
    call index); protected files must be old-or-new, no lock may remain.
"""

from __future__ import annotations

import gc
import os
import random

from .. import simfs, util
from ..kernel import Sim, derive_seed
from ..simfs import R, is_injected

PROP_ID = "C07"
LEVEL = "exploration"
RULE = ("seeded plans: (a) 2-3 writers + 0-2 readers on one GitFile path, "
        "schedule drawn from {uniform,burst,pct,targeted} at syscall "
        "granularity, 0-2 injected errors; (b) per dulwich routine x error "
        "kind, the k-th mutating syscall fails for every k. A case is "
        "distinct by the hash of its (actor,call,path) event sequence and "
        "non-trivial when >=2 actors interleaved inside a lock window or a "
        "fault actually fired.")
ASSUMPTIONS = [
    "process-level concurrency: pre-emption only at intercepted system calls",
    "tmpfs/ext4 rename and O_EXCL semantics as provided by the real kernel",
    "errors are injected instead of the call (no effect), except PARTIAL "
    "which writes a prefix first; unlink of the lock file itself is never "
    "failed (the docstring of close() excludes that case)",
]
COMPONENTS = {
    "real": ["dulwich.file._GitFile", "dulwich.refs.DiskRefsContainer",
             "dulwich.index.Index", "dulwich.config.ConfigFile",
             "dulwich.object_store.DiskObjectStore", "kernel file system "
             "(tmpfs) for O_EXCL/rename/unlink"],
    "stub": ["scheduler", "clock", "stat metadata", "directory order",
             "write buffering (simulator-owned buffer over a raw fd)"],
}
PROBES = {"filelocked_seen": 1,
          "fault_in_close": 1, "commit_after_foreign_commit": 1,
          "single_file_write_failed": 1}
MIN_BUDGET = 250

FAULT_KINDS = ["ENOSPC", "EIO", "EPERM", "KBI", "PARTIAL"]


def budget(tier):
    return 16000 if tier == "quick" else 600000


# --------------------------------------------------------------- plan gen
def gen_plan(seed, tier):
    rng = random.Random(derive_seed(seed, "c07plan"))
    if seed % 40 == 0:
        return gen_sweep(seed, rng, tier)
    if seed % 40 in (1, 2, 3):
        return gen_refrace(seed, rng, tier)
    return gen_gitfile(seed, rng, tier)


def gen_refrace(seed, rng, tier):
    """The same protocol one level up: 2-3 processes run dulwich's own ref
    routines on one ref; the ref file is the protected file."""
    pol = rng.choice(["uniform", "burst", "pct", "targeted", "targeted"])
    sched = {"policy": pol}
    if pol == "burst":
        sched["p_switch"] = rng.choice([0.05, 0.15, 0.3])
    if pol == "pct":
        sched["depth"] = rng.choice([1, 2, 3])
        sched["est_steps"] = 60
    actors = []
    for i in range(rng.choice([2, 2, 3])):
        actors.append({"name": f"p{i}", "ops": [
            rng.choice(["add", "add", "set", "cas_init", "cas_zero", "rm",
                        "del", "locked_set", "unpack", "pack"])
            for _ in range(rng.randint(1, 2))]})
    init = rng.choice(["absent", "absent", "loose", "packed"])
    if rng.random() < 0.3:
        # everybody works on the packed entry of the ref
        init = "packed"
        for a in actors:
            a["ops"] = [rng.choice(["del", "rm", "unpack", "unpack", "pack"])
                        for _ in a["ops"]]
    # names nested as directory versus file: p0 works on refs/heads/x, the
    # others on refs/heads/x/sub, whose lock lives in a directory that p0's
    # clean-up of "empty" directories may look at (own generator)
    nested = random.Random(derive_seed(seed, "c07nest")).random() < 0.25
    if nested:
        init = "absent"
        for a in actors:
            a["ops"] = [o if o in ("add", "set", "del", "cas_zero", "rm")
                        else "set" for o in a["ops"]]
    return {"kind": "refrace", "seed": seed, "sched": sched,
            "actors": actors, "init": init, "nested": nested,
            "reader": rng.random() < 0.6,
            "clock": {"step_lo_ns": 0,
                      "step_hi_ns": rng.choice([0, 1000, 10**6])}}


def gen_gitfile(seed, rng, tier):
    nw = rng.choice([2, 2, 3])
    nr = rng.choice([0, 0, 1, 1, 2])
    pol = rng.choice(["uniform", "burst", "pct", "targeted", "targeted"])
    sched = {"policy": pol}
    if pol == "burst":
        sched["p_switch"] = rng.choice([0.05, 0.15, 0.3])
    if pol == "pct":
        sched["depth"] = rng.choice([1, 2, 3])
        sched["est_steps"] = 40
    actors = []
    for i in range(nw):
        rounds = []
        for _ in range(rng.randint(1, 3)):
            rounds.append({
                "writes": [rng.choice([0, 1, 7, 40, 600])
                           for _ in range(rng.randint(0, 3))],
                "end": rng.choice(["close", "close", "close", "abort",
                                   "ctx", "ctx", "ctx_exc"]),
            })
        actors.append({"name": f"w{i}", "role": "writer", "rounds": rounds})
    for i in range(nr):
        actors.append({"name": f"r{i}", "role": "reader",
                       "reads": rng.randint(1, 4)})
    faults = []
    if rng.random() < 0.5:
        for _ in range(rng.choice([1, 1, 2])):
            faults.append({"actor": f"w{rng.randrange(nw)}",
                           "nth": rng.randrange(0, 10),
                           "kind": rng.choice(FAULT_KINDS)})
    return {
        "kind": "gitfile", "seed": seed, "sched": sched,
        "actors": actors, "faults": faults,
        "buffering": rng.choice([-1, -1, 0, 16, 512]),
        "fsync": rng.random() < 0.7,
        "stale_lock": rng.random() < 0.04,
        "clock": {"step_lo_ns": 0, "step_hi_ns": rng.choice([0, 1000, 10**6])},
    }


def _value(name, ri, writes):
    parts = []
    for wi, n in enumerate(writes):
        parts.append(b"[%s.%d.%d:" % (name.encode(), ri, wi) + b"x" * n + b"]")
    return parts


class LockMonitor:
    """Tracks who owns ``target.lock`` from the system calls alone."""

    def __init__(self, sim, root, init):
        self.sim = sim
        self.lock_rel = "target.lock"
        self.tgt_rel = "target"
        self.tgt = os.path.join(root, "target")
        self.exists = False
        self.owner = None
        self.committed = {init}
        self.current = init
        self.expect = {}  # actor -> full value of the round in progress
        self.failed_round = set()  # actors whose current round saw an error
        self.last_committer = None
        self.postreplace = set()  # actors between their rename and return
        sim.listeners.append(self.post)

    def viol(self, cls, actor, call, detail):
        self.sim.violation(f"C07/{cls}/{call}", detail)

    def post(self, sim, a, call, rel, info):
        if rel == self.lock_rel:
            if call in ("open_excl", "open_w"):
                created = info[2]
                if self.exists and self.owner != a.name:
                    self.viol("acquired-while-held", a, call,
                              f"{a.name} opened {rel} for writing while "
                              f"{self.owner} holds it")
                if self.postreplace - {a.name}:
                    sim.stat("probe:lock_taken_between_replace_and_return")
                self.exists = True
                self.owner = a.name
            elif call in ("rename", "replace"):
                if self.owner != a.name:
                    self.viol("foreign-lock-removed", a, call,
                              f"{a.name} renamed {rel} owned by {self.owner}")
                self.exists = False
                self.owner = None
                self.postreplace.add(a.name)
                if info[0] == self.tgt_rel:
                    self.on_commit(a)
            elif call == "unlink":
                if self.owner != a.name:
                    self.viol("foreign-lock-removed", a, call,
                              f"{a.name} unlinked {rel} owned by {self.owner}")
                self.exists = False
                self.owner = None
        elif rel == self.tgt_rel and call in ("open_w", "kwrite", "unlink",
                                              "truncate", "ftruncate"):
            self.viol("in-place-write", a, call,
                      f"{a.name} modified the protected file in place")

    def on_commit(self, a):
        data = util.read_real(self.tgt)
        want = self.expect.get(a.name)
        if self.last_committer not in (None, a.name):
            self.sim.stat("probe:commit_after_foreign_commit")
        self.last_committer = a.name
        if a.name in self.failed_round:
            self.viol("failed-write-visible", a, "replace",
                      f"{a.name} committed after an error in the same round")
        if data != want:
            self.viol("torn-content", a, "replace",
                      f"content after commit by {a.name}: {data[:80]!r} "
                      f"expected {None if want is None else want[:80]!r}")
        self.committed.add(data)
        self.current = data


class RefLockMonitor(LockMonitor):
    """LockMonitor for a loose ref file: the committed content must be one
    complete value line; the lock holder may unlink the ref (a delete)."""

    def __init__(self, sim, root, rel):
        super().__init__(sim, root, b"")
        self.lock_rel = rel + ".lock"
        self.tgt_rel = rel
        self.tgt = os.path.join(root, rel)

    def post(self, sim, a, call, rel, info):
        if rel == self.tgt_rel:
            if call in ("open_w", "kwrite", "truncate", "ftruncate"):
                self.viol("in-place-write", a, call,
                          f"{a.name} modified the ref file in place")
            elif call == "unlink" and not (self.exists and
                                           self.owner == a.name):
                self.viol("unlinked-without-lock", a, call,
                          f"{a.name} removed the ref file without holding "
                          f"its lock (owner: {self.owner})")
            return
        super().post(sim, a, call, rel, info)

    def on_commit(self, a):
        data = util.read_real(self.tgt)
        if self.last_committer not in (None, a.name):
            self.sim.stat("probe:commit_after_foreign_commit")
        self.last_committer = a.name
        if not _complete_ref(data):
            self.viol("torn-content", a, "replace",
                      f"ref file after commit by {a.name}: {data!r:.80}")


def _complete_ref(data):
    import re
    return data is not None and re.fullmatch(
        rb"([0-9a-f]{40}|ref: [^\n]+)\n", data) is not None


def run_refrace(plan):
    from dulwich.file import FileLocked
    from dulwich.refs import locked_ref
    from dulwich.repo import Repo
    sim = Sim(seed=plan["seed"], sched=plan["sched"], clock=plan.get("clock"),
              step_cap=20000)
    name = b"refs/heads/x"
    rel = "repo/.git/refs/heads/x"
    nested = bool(plan.get("nested"))
    parent_name = name
    if nested:
        name = b"refs/heads/x/sub"
        rel = "repo/.git/refs/heads/x/sub"
    v0 = b"%040x" % 1
    with util.Sandbox() as root:
        fs = simfs.FS(root, sim, {})
        simfs.activate(fs)
        rp = os.path.join(root, "repo")
        r0 = util.init_repo(rp)
        # a bystander nobody touches; it lives in packed-refs when that exists
        keep, vk = b"refs/heads/keep", b"%040x" % 7
        r0.refs[keep] = vk
        if plan["init"] != "absent":
            r0.refs[name] = v0
        if plan["init"] in ("packed", "absent"):
            r0.refs.pack_refs(all=True)
        r0.close()
        mon = RefLockMonitor(sim, root, rel)
        full = os.path.join(root, rel)

        def pusher(spec, idx, name=name):
            if nested and idx == 0:
                name = parent_name

            def body(a):
                r = Repo(rp)
                try:
                    for j, op in enumerate(spec["ops"]):
                        val = b"%040x" % (100 + idx * 10 + j)
                        try:
                            if op == "add":
                                r.refs.add_if_new(name, val)
                            elif op == "set":
                                r.refs[name] = val
                            elif op == "cas_init":
                                r.refs.set_if_equals(name, v0, val)
                            elif op == "cas_zero":
                                r.refs.set_if_equals(name, b"0" * 40, val)
                            elif op == "rm":
                                r.refs.remove_if_equals(name, v0)
                            elif op == "del":
                                r.refs.remove_if_equals(name, None)
                            elif op == "unpack":
                                # drop the packed entry only (documented
                                # "None removes" form)
                                r.refs.add_packed_refs({name: None})
                            elif op == "pack":
                                r.refs.pack_refs(all=True)
                            elif op == "locked_set":
                                with locked_ref(r.refs, name) as lr:
                                    if lr.ensure_equals(v0) or \
                                            lr.get() is None:
                                        lr.set(val)
                        except FileLocked:
                            sim.stat("probe:filelocked_seen")
                        except (FileNotFoundError, KeyError):
                            # locked_ref on a ref whose directory is gone;
                            # deleting what is not there
                            sim.stat("refrace_refused")
                        except (OSError, ValueError):
                            if not nested:
                                raise
                            # refs/heads/x against refs/heads/x/sub: one of
                            # the two is refused, however it is worded
                            sim.stat("probe:nested_name_refused")
                finally:
                    r.close()
            return body

        def reader(a):
            for _ in range(4):
                sim.yield_point("reader")
                data = util.read_real(full) if R.lexists(full) else None
                if data is not None and not _complete_ref(data):
                    sim.violation("C07/torn-read/read",
                                  f"a reader saw the ref file as {data!r:.60}")
        for idx, spec in enumerate(plan["actors"]):
            sim.actor(spec["name"], pusher(spec, idx))
        if plan["reader"]:
            sim.actor("r0", reader)
        sim.run()
        gc.collect()
        if sim.abort_reason:
            sim.violation(f"C07/{sim.abort_reason}/refrace", "")
        for a in sim.actors:
            if a.exc is not None:
                sim.violation(f"C07/unexpected-exception/refrace/"
                              f"{type(a.exc).__name__}", repr(a.exc)[:300])
        if R.lexists(full + ".lock"):
            sim.violation("C07/lock-leaked/refrace",
                          "the ref's lock file is left behind")
        import stat as _st
        data = util.read_real(full) if R.lexists(full) and \
            not _st.S_ISDIR(R.lstat(full).st_mode) else None
        if data is not None and not _complete_ref(data):
            sim.violation("C07/torn-content/final",
                          f"ref file at the end: {data!r:.60}")
        # packed-refs is a protected file too: whatever was done to x, the
        # rewrite must have carried the bystander's line over
        r1 = Repo(rp)
        try:
            try:
                got = r1.refs[keep]
            except KeyError:
                got = None
            if got != vk:
                sim.violation("C07/bystander-packed-ref-lost/refrace",
                              f"refs/heads/keep reads {got!r} at the end; "
                              f"packed-refs={util.read_real(os.path.join(rp, '.git', 'packed-refs'))!r:.200}")
        finally:
            r1.close()
        if R.lexists(os.path.join(rp, ".git", "packed-refs.lock")):
            sim.violation("C07/lock-leaked/refrace/packed-refs",
                          "packed-refs.lock is left behind")
        simfs.deactivate()
        res = finish(sim, plan, fs)
    res["stats"]["kind:refrace"] = 1
    return res


def run_gitfile(plan):
    from dulwich.file import FileLocked, GitFile
    sim = Sim(seed=plan["seed"], sched=plan["sched"], clock=plan.get("clock"),
              faults=plan["faults"], step_cap=5000)
    init = b"<initial>"
    with util.Sandbox() as root:
        fs = simfs.FS(root, sim, {"buffering": plan["buffering"]})
        simfs.activate(fs)
        tgt = os.path.join(root, "target")
        lock = tgt + ".lock"
        with open(tgt, "wb") as f:
            f.write(init)
        mon = LockMonitor(sim, root, init)
        if plan.get("stale_lock"):
            with open(lock, "wb") as f:
                f.write(b"stale")
            mon.exists = True
            mon.owner = "<crashed>"
        sim.fault_filter = lambda call, rel: call != "unlink"
        outcomes = {}

        def lock_owned_by(name):
            return mon.exists and mon.owner == name and R.lexists(lock)

        def writer(spec):
            name = spec["name"]

            def body(a):
                out = outcomes.setdefault(name, [])
                for ri, rd in enumerate(spec["rounds"]):
                    parts = _value(name, ri, rd["writes"])
                    mon.expect[name] = b"".join(parts)
                    mon.failed_round.discard(name)
                    end = rd["end"]
                    res = None
                    f = None
                    nf0 = len(sim.fired)
                    try:
                        f = GitFile(tgt, "wb", fsync=plan["fsync"])
                    except FileLocked:
                        sim.stat("probe:filelocked_seen")
                        out.append("locked")
                        continue
                    except BaseException as e:  # noqa: BLE001
                        if not is_injected(e):
                            sim.violation(
                                f"C07/unexpected-exception/open/{type(e).__name__}",
                                repr(e))
                        res = "open-raised"
                    if f is not None:
                        try:
                            if end in ("ctx", "ctx_exc"):
                                with f:
                                    for p in parts:
                                        f.write(p)
                                    if end == "ctx_exc":
                                        mon.failed_round.add(name)
                                        raise RuntimeError("user error")
                                res = "committed"
                            else:
                                try:
                                    for p in parts:
                                        f.write(p)
                                except BaseException:
                                    mon.failed_round.add(name)
                                    f.abort()
                                    raise
                                if end == "close":
                                    f.close()
                                    res = "committed"
                                else:
                                    mon.failed_round.add(name)
                                    f.abort()
                                    res = "aborted"
                        except RuntimeError as e:
                            if str(e) != "user error":
                                raise
                            res = "aborted"
                        except BaseException as e:  # noqa: BLE001
                            res = "raised:" + type(e).__name__
                            if any(x[3] != "open_excl"
                                   for x in sim.fired[nf0:]):
                                sim.stat("probe:fault_in_close")
                            if not is_injected(e):
                                sim.violation(
                                    f"C07/unexpected-exception/{end}/"
                                    f"{type(e).__name__}", repr(e))
                    # release: the call has returned or raised to the caller
                    if lock_owned_by(name):
                        fk = sim.fired[nf0:]
                        site = fk[-1][3] if fk else "nofault"
                        kind = fk[-1][2] if fk else "-"
                        sim.violation(
                            f"C07/lock-leaked/{end}/{site}",
                            f"{name} round {ri} ended with {res} but its lock "
                            f"file is still there (fault {kind} at {site})")
                    out.append(res)
                    mon.postreplace.discard(name)
                    f = None
                mon.expect.pop(name, None)
            return body

        def reader(spec):
            name = spec["name"]

            def body(a):
                for _ in range(spec["reads"]):
                    with open(tgt, "rb") as f:
                        data = f.read()
                    if data not in mon.committed:
                        sim.violation("C07/torn-read/read",
                                      f"{name} read {data[:80]!r}")
            return body

        for spec in plan["actors"]:
            sim.actor(spec["name"],
                      writer(spec) if spec["role"] == "writer" else reader(spec))
        sim.run()
        gc.collect()
        res = finish(sim, plan, fs)
        if sim.abort_reason in ("deadlock", "step-cap"):
            res["violations"].append({"sig": f"C07/{sim.abort_reason}",
                                      "detail": "run did not finish"})
        elif not sim.aborting:
            for a in sim.actors:
                if a.exc is not None:
                    res["violations"].append({
                        "sig": f"C07/harness-actor-exception/{type(a.exc).__name__}",
                        "detail": repr(a.exc)})
            # final state + bounded liveness
            data = util.read_real(tgt)
            if data != mon.current:
                res["violations"].append({
                    "sig": "C07/final-content",
                    "detail": f"{data[:80]!r} != {mon.current[:80]!r}"})
            if not plan.get("stale_lock"):
                sim.current = None
                try:
                    g = GitFile(tgt, "wb")
                    g.write(b"<final>")
                    g.close()
                    if util.read_real(tgt) != b"<final>":
                        res["violations"].append({
                            "sig": "C07/final-writer-not-visible",
                            "detail": "fresh writer's commit not visible"})
                except FileLocked:
                    res["violations"].append({
                        "sig": "C07/lock-leaked/final",
                        "detail": "a fresh writer after the run cannot lock"})
        simfs.deactivate()
        return res


def finish(sim, plan, fs):
    viols = [{"sig": s, "detail": d} for s, d in sim.violations]
    # dedupe by signature
    seen = set()
    out = []
    for v in viols:
        if v["sig"] not in seen:
            seen.add(v["sig"])
            out.append(v)
    stats = dict(sim.stats)
    stats["sim_ns"] = sim.clock.advanced
    stats["steps"] = sim.steps
    stats["fs_calls"] = fs.all_calls
    stats["mutating_calls"] = fs.mut_calls
    for f in sim.fired:
        stats["fault:" + f[2] + "@" + f[3]] = stats.get(
            "fault:" + f[2] + "@" + f[3], 0) + 1
    pol = (plan.get("sched") or {}).get("policy", "trace")
    stats["policy:" + pol] = 1
    ih = util.h8([(e[1], e[2], e[3]) for e in sim.events]) \
        if sim.events is not None else None
    switches = len(sim.trace_out)
    return {
        "violations": out, "digest": sim.digest(), "ihash": ih,
        "nontrivial": bool(sim.fired) or switches > len(sim.actors),
        "trace": sim.trace_out, "stats": stats,
        "events": sim.events,
        "sample": {"plan": {k: v for k, v in plan.items()},
                   "events": len(sim.events or []),
                   "context_switches": switches},
    }


# ------------------------------------------------------------------ sweep
def _entry(repo, path, data):
    from dulwich.index import IndexEntry
    from dulwich.objects import Blob
    b = Blob.from_string(data)
    repo.object_store.add_object(b)
    return IndexEntry(ctime=(1700000000, 0), mtime=(1700000000, 0), dev=1,
                      ino=7, mode=0o100644, uid=1000, gid=1000,
                      size=len(data), sha=b.id, flags=0, extended_flags=0)


def _setup_basic(path):
    r = util.init_repo(path)
    ids = util.simple_history(r, 3)
    r.refs.set_symbolic_ref(b"HEAD", b"refs/heads/master")
    r.refs[b"refs/heads/other"] = ids[1]
    r.refs[b"refs/heads/dir/sub"] = ids[0]
    idx = r.open_index()
    for i in range(6):
        idx[b"file%d.txt" % i] = _entry(r, b"file%d" % i, b"data %d\n" % i)
    idx.write()
    r.close()


def _setup_packed(path):
    _setup_basic(path)
    from dulwich.repo import Repo
    r = Repo(path)
    r.refs.pack_refs(all=True)
    ids = util.simple_history(r, 2, branch=b"refs/heads/loose2", tag=False,
                              salt=b"L")
    r.refs[b"refs/heads/other"] = ids[0]  # loose overriding packed
    r.close()


def _setup_shared(path):
    # core.sharedRepository: every file written through the lock protocol is
    # also chmod'ed, one more call that can fail
    _setup_basic(path)
    from dulwich.repo import Repo
    r = Repo(path)
    c = r.get_config()
    c.set((b"core",), b"sharedRepository", b"group")
    c.write_to_path()
    r.close()


def _repo(path):
    from dulwich.repo import Repo
    return Repo(path)


def _ids(r):
    c3 = r.refs[b"refs/heads/master"]
    c2 = r[c3].parents[0]
    c1 = r[c2].parents[0]
    return c1, c2, c3


def op_index_write(r):
    idx = r.open_index()
    for i in range(40):
        idx[b"new/file%03d.txt" % i] = _entry(r, b"x", b"new %d\n" % i)
    idx.write()


def op_index_write_skiphash(r):
    idx = r.open_index()
    idx._skip_hash = True
    for i in range(40):
        idx[b"new/file%03d.txt" % i] = _entry(r, b"x", b"new %d\n" % i)
    idx.write()


def op_ref_set(r):
    c1, c2, c3 = _ids(r)
    r.refs[b"refs/heads/other"] = c3


def op_ref_cas(r):
    c1, c2, c3 = _ids(r)
    assert r.refs.set_if_equals(b"refs/heads/master", c3, c1)


def op_ref_cas_via_head(r):
    c1, c2, c3 = _ids(r)
    assert r.refs.set_if_equals(b"HEAD", c3, c2)


def op_ref_add_new(r):
    c1, c2, c3 = _ids(r)
    assert r.refs.add_if_new(b"refs/heads/newdir/brandnew", c2)


def op_ref_remove(r):
    c1, c2, c3 = _ids(r)
    assert r.refs.remove_if_equals(b"refs/heads/dir/sub", c1)


def op_ref_remove_other(r):
    del r.refs[b"refs/heads/other"]


def op_symref(r):
    r.refs.set_symbolic_ref(b"HEAD", b"refs/heads/other")


def op_pack_refs(r):
    r.refs.pack_refs(all=True)


def op_add_packed(r):
    c1, c2, c3 = _ids(r)
    r.refs.add_packed_refs({b"refs/heads/master": c2,
                            b"refs/heads/pk": c1})


def op_locked_ref_set(r):
    from dulwich.refs import locked_ref
    c1, c2, c3 = _ids(r)
    with locked_ref(r.refs, b"refs/heads/master") as lr:
        assert lr.ensure_equals(c3)
        lr.set(c1)


def op_config(r):
    c = r.get_config()
    for i in range(30):
        c.set((b"section%d" % i,), b"key", b"value %d" % i)
    c.write_to_path()


def op_add_object(r):
    r.object_store.add_object(util.mk_blob(b"fresh loose object\n" * 50))


def op_commit_graph(r):
    r.object_store.write_commit_graph()


def op_alternates(r):
    r.object_store.add_alternate_path("/nonexistent/alt/objects")


def op_shallow(r):
    c1, c2, c3 = _ids(r)
    r.update_shallow([c2], [])


def op_named_file(r):
    r._put_named_file("description", b"a new description\n" * 20)


def op_pack_loose(r):
    r.object_store.pack_loose_objects()


def op_midx(r):
    r.object_store.pack_loose_objects()
    r.object_store.write_midx()


def _setup_onepack(path):
    _setup_basic(path)
    from dulwich.repo import Repo
    r = Repo(path)
    r.object_store.pack_loose_objects()
    r.close()


def op_locked_index(r):
    from dulwich.index import locked_index
    with locked_index(r.index_path()) as idx:
        for i in range(40):
            idx[b"li/file%03d.txt" % i] = _entry(r, b"x", b"li %d\n" % i)


def op_pack_keep(r):
    for p in r.object_store.packs:
        p.keep(b"kept by the sweep " * 20)


def op_write_pack_fn(r):
    from dulwich.object_format import DEFAULT_OBJECT_FORMAT
    from dulwich.pack import write_pack
    objs = [(util.mk_blob(b"wp %d\n" % i * 30), None) for i in range(6)]
    write_pack(os.path.join(r.object_store.pack_dir, "pack-" + "ab" * 20),
               objs, DEFAULT_OBJECT_FORMAT)


def _op_create_index(version):
    def op(r):
        pk = next(iter(r.object_store.packs))
        pk.data.create_index(
            os.path.join(r.object_store.pack_dir,
                         "pack-" + "cd" * 20 + ".idx"), version=version)
    return op


def op_bitmaps(r):
    refs = {k: r.refs[k] for k in r.refs.allkeys() if k != b"HEAD"}
    r.object_store.generate_pack_bitmaps(refs)


def op_commit_graph_fn(r):
    from dulwich.commit_graph import write_commit_graph
    write_commit_graph(r.controldir(), r.object_store, list(_ids(r)))


ROUTINES = {
    "locked_index": (_setup_basic, op_locked_index),
    "pack_keep": (_setup_onepack, op_pack_keep),
    "write_pack_fn": (_setup_basic, op_write_pack_fn),
    "create_index_v1": (_setup_onepack, _op_create_index(1)),
    "create_index_v2": (_setup_onepack, _op_create_index(2)),
    "create_index_v3": (_setup_onepack, _op_create_index(3)),
    "generate_pack_bitmaps": (_setup_onepack, op_bitmaps),
    "write_commit_graph_fn": (_setup_basic, op_commit_graph_fn),
    "index_write": (_setup_basic, op_index_write),
    "index_write_skiphash": (_setup_basic, op_index_write_skiphash),
    "ref_set": (_setup_basic, op_ref_set),
    "ref_cas": (_setup_basic, op_ref_cas),
    "ref_cas_via_head": (_setup_basic, op_ref_cas_via_head),
    "ref_add_if_new": (_setup_basic, op_ref_add_new),
    "ref_remove": (_setup_basic, op_ref_remove),
    "ref_remove_packed_and_loose": (_setup_packed, op_ref_remove_other),
    "set_symbolic_ref": (_setup_basic, op_symref),
    "pack_refs": (_setup_basic, op_pack_refs),
    "pack_refs_again": (_setup_packed, op_pack_refs),
    "add_packed_refs": (_setup_packed, op_add_packed),
    "locked_ref_set": (_setup_basic, op_locked_ref_set),
    "config_write": (_setup_basic, op_config),
    "add_object": (_setup_basic, op_add_object),
    "write_commit_graph": (_setup_basic, op_commit_graph),
    "add_alternate_path": (_setup_basic, op_alternates),
    "update_shallow": (_setup_basic, op_shallow),
    "put_named_file": (_setup_basic, op_named_file),
    "pack_loose_objects": (_setup_basic, op_pack_loose),
    "write_midx": (_setup_basic, op_midx),
    "put_named_file_shared": (_setup_shared, op_named_file),
    "update_shallow_shared": (_setup_shared, op_shallow),
    "ref_set_shared": (_setup_shared, op_ref_set),
    "index_write_shared": (_setup_shared, op_index_write),
    "pack_refs_shared": (_setup_shared, op_pack_refs),
    "add_object_shared": (_setup_shared, op_add_object),
}
ROUTINE_NAMES = sorted(ROUTINES)
SINGLE_FILE = {
    "put_named_file": ".git/description",
    "update_shallow": ".git/shallow",
    "ref_set": ".git/refs/heads/other",
    "ref_cas": ".git/refs/heads/master",
    "locked_ref_set": ".git/refs/heads/master",
    "set_symbolic_ref": ".git/HEAD",
    "config_write": ".git/config",
    "add_alternate_path": ".git/objects/info/alternates",
    "index_write": ".git/index",
    "index_write_skiphash": ".git/index",
    "locked_index": ".git/index",
    "write_commit_graph_fn": ".git/objects/info/commit-graph",
}
SWEEP_KINDS = ["ENOSPC", "EIO", "EPERM", "KBI", "PARTIAL"]


def gen_sweep(seed, rng, tier):
    j = seed // 40
    combo = j % (len(ROUTINE_NAMES) * len(SWEEP_KINDS))
    rt = ROUTINE_NAMES[combo % len(ROUTINE_NAMES)]
    kind = SWEEP_KINDS[combo // len(ROUTINE_NAMES)]
    return {"kind": "sweep", "seed": seed, "routine": rt, "fault": kind,
            "buffering": rng.choice([-1, 0, 16, 512, 4096]),
            "ks": None}


def _refs_view(path):
    """Ref map as a *fresh* process sees it; errors are part of the view."""
    from dulwich.repo import Repo
    try:
        r = Repo(path)
    except BaseException as e:  # noqa: BLE001
        return ("open-failed", type(e).__name__)
    try:
        out = {}
        for k in sorted(r.refs.allkeys()):
            try:
                out[k.decode()] = r.refs.read_ref(k).decode()
            except BaseException as e:  # noqa: BLE001
                out[k.decode()] = "ERR:" + type(e).__name__
        return out
    finally:
        r.close()


def _skip(rel):
    # reflogs are append-only logs, not replaced files; temp packs without an
    # index are never read (their being ignored is C09's subject)
    if rel.startswith(".git/logs/") or "/tmp_pack_" in rel:
        return True
    if rel.startswith(".git/objects/pack/"):
        n = rel.rsplit("/", 1)[1]
        return not (n.startswith("pack-") and n.endswith(
            (".pack", ".idx", ".keep", ".bitmap")) or n == "multi-pack-index")
    return False


def run_sweep(plan):
    setup, op = ROUTINES[plan["routine"]]
    viols = []
    stats = {}
    ihashes = []
    base = util.scratch_base()
    tmpl = os.path.join(base, "tmpl")
    util.real_rmtree(tmpl)
    R.makedirs(tmpl)
    simfs.deactivate()
    try:
        # template built under a pass-through sandbox (virtual metadata on)
        sim0 = Sim(seed=plan["seed"], sched={"policy": "sequential"})
        fs0 = simfs.FS(tmpl, sim0)
        simfs.activate(fs0)
        setup(os.path.join(tmpl, "repo"))
        simfs.deactivate()

        def one(k):
            with util.Sandbox("sw") as root:
                R.rmdir(root)
                util.real_copytree(tmpl, root)
                faults = [] if k is None else [
                    {"actor": "main", "nth": k, "kind": plan["fault"]}]
                sim = Sim(seed=plan["seed"], sched={"policy": "sequential"},
                          faults=faults)
                sim.fault_filter = _sweep_filter
                fs = simfs.FS(root, sim, {"buffering": plan["buffering"],
                                          "shuffle_listdir": False})
                simfs.activate(fs)
                rp = os.path.join(root, "repo")
                old = util.snapshot(rp, _skip)
                old_refs = _refs_view(rp)

                def body(a):
                    r = _repo(rp)
                    try:
                        op(r)
                    finally:
                        a.local["repo"] = r
                act = sim.run_inline("main", body)
                # the caller has got its result; only now may objects die
                r = act.local.pop("repo", None)
                leaked = sorted(p for p in util.snapshot(rp)
                                if p.endswith(".lock"))
                if r is not None:
                    r.close()
                del r
                exc = act.exc
                act.exc = None
                gc.collect()
                new = util.snapshot(rp, _skip)
                new_refs = _refs_view(rp)
                simfs.deactivate()
                return sim, fs, old, new, old_refs, new_refs, leaked, exc

        sim, fs, old, good, old_refs, good_refs, leaked, exc = one(None)
        if exc is not None:
            raise RuntimeError(f"fault-free {plan['routine']} failed: {exc!r}")
        nmut = fs.mut_calls
        stats["sweep_mutating_calls"] = nmut
        ks = plan.get("ks")
        if ks is None:
            ks = list(range(nmut))
        for k in ks:
            sim, fs, old_k, new, old_refs_k, new_refs, leaked, exc = one(k)
            if not sim.fired:
                continue
            site = sim.fired[0][3]
            stats["fault:" + plan["fault"] + "@" + site] = stats.get(
                "fault:" + plan["fault"] + "@" + site, 0) + 1
            ihashes.append(util.h8([plan["routine"], plan["fault"], k]))
            tag = f"{plan['routine']}/{site}"
            if exc is not None and not is_injected(exc):
                viols.append({"sig": f"C07/sweep-unexpected-exception/{tag}/"
                              f"{type(exc).__name__}", "k": k,
                              "detail": f"k={k} {exc!r}"})
            bad = []
            for p in sorted(set(old) | set(good) | set(new)):
                if p.endswith(".lock"):
                    continue
                v = new.get(p)
                if v != old.get(p) and v != good.get(p):
                    bad.append(p)
            # a routine that is one write of one protected file: when it
            # raises, that file holds what it held before
            one_file = SINGLE_FILE.get(plan["routine"].replace("_shared", ""))
            if exc is not None and one_file is not None:
                stats["probe:single_file_write_failed"] = 1
                if new.get(one_file) != old.get(one_file):
                    viols.append({
                        "sig": f"C07/failed-write-took-effect/{tag}", "k": k,
                        "detail": f"k={k} fault={plan['fault']}@{site}: the "
                        f"call raised {exc!r:.80} and {one_file} changed"})
            if bad:
                viols.append({"sig": f"C07/sweep-neither-old-nor-new/{tag}",
                              "k": k,
                              "detail": f"k={k} fault={plan['fault']}@{site} "
                              f"files={bad[:5]} exc={exc!r}"})
            if new_refs != old_refs and new_refs != good_refs:
                d = {n: (old_refs.get(n) if isinstance(old_refs, dict) else old_refs,
                         new_refs.get(n) if isinstance(new_refs, dict) else new_refs)
                     for n in (set(old_refs) | set(new_refs)
                               if isinstance(old_refs, dict) and
                               isinstance(new_refs, dict) else ["*"])
                     if not isinstance(old_refs, dict) or
                     not isinstance(new_refs, dict) or
                     old_refs.get(n) != new_refs.get(n)}
                viols.append({"sig": f"C07/sweep-refs-neither-old-nor-new/{tag}",
                              "k": k,
                              "detail": f"k={k} fault={plan['fault']}@{site} "
                              f"changed={d} exc={exc!r}"})
            if leaked:
                viols.append({"sig": f"C07/sweep-lock-leaked/{tag}", "k": k,
                              "detail": f"k={k} fault={plan['fault']}@{site} "
                              f"left {leaked} exc={exc!r}"})
    finally:
        simfs.deactivate()
        util.real_rmtree(tmpl)
    seen = set()
    out = []
    for v in viols:
        if v["sig"] not in seen:
            seen.add(v["sig"])
            out.append(v)
    stats["policy:sweep"] = 1
    return {"violations": out, "digest": util.h8(ihashes),
            "ihash": util.h8([plan["routine"], plan["fault"],
                              plan["buffering"]]),
            "nontrivial": bool(ihashes), "trace": None, "stats": stats,
            "events": None,
            "sample": {"plan": plan, "fault_points": len(ihashes)}}


def _sweep_filter(call, rel):
    # never fail the removal of a lock file (see ASSUMPTIONS) nor reflog IO
    if call == "unlink" and rel.endswith(".lock"):
        return False
    if rel.startswith("repo/.git/logs"):
        return False
    return True


def run_plan(plan):
    if plan["kind"] == "refrace":
        return run_refrace(plan)
    if plan["kind"] == "sweep":
        return run_sweep(plan)
    return run_gitfile(plan)


# --------------------------------------------------------------- shrinking
def shrink(plan):
    import json
    if plan["kind"] == "sweep":
        ks = plan.get("ks")
        if ks is None:
            ks = list(range(160))
        if len(ks) > 1:
            h = len(ks) // 2
            for part in (ks[:h], ks[h:]):
                p = json.loads(json.dumps(plan))
                p["ks"] = part
                yield p
        return
    if plan["kind"] == "refrace":
        for i, a in enumerate(plan["actors"]):
            for j in range(len(a["ops"])):
                p = json.loads(json.dumps(plan))
                del p["actors"][i]["ops"][j]
                yield p
        if plan["reader"]:
            p = json.loads(json.dumps(plan))
            p["reader"] = False
            yield p
        return
    acts = plan["actors"]
    # drop an actor (keep indices stable by replacing with an empty role)
    for i, a in enumerate(acts):
        if a["role"] == "writer" and a["rounds"]:
            p = json.loads(json.dumps(plan))
            p["actors"][i]["rounds"] = []
            yield p
        if a["role"] == "reader" and a["reads"]:
            p = json.loads(json.dumps(plan))
            p["actors"][i]["reads"] = 0
            yield p
    for i, a in enumerate(acts):
        if a["role"] != "writer":
            continue
        for ri in range(len(a["rounds"]) - 1, -1, -1):
            if len(a["rounds"]) > 1:
                p = json.loads(json.dumps(plan))
                del p["actors"][i]["rounds"][ri]
                yield p
            if a["rounds"][ri]["writes"]:
                p = json.loads(json.dumps(plan))
                p["actors"][i]["rounds"][ri]["writes"] = \
                    a["rounds"][ri]["writes"][:-1]
                yield p
            if any(w > 1 for w in a["rounds"][ri]["writes"]):
                p = json.loads(json.dumps(plan))
                p["actors"][i]["rounds"][ri]["writes"] = \
                    [min(w, 1) for w in a["rounds"][ri]["writes"]]
                yield p
    for fi in range(len(plan["faults"])):
        p = json.loads(json.dumps(plan))
        del p["faults"][fi]
        yield p
    if plan.get("stale_lock"):
        p = json.loads(json.dumps(plan))
        p["stale_lock"] = False
        yield p
    if plan.get("buffering") != -1:
        p = json.loads(json.dumps(plan))
        p["buffering"] = -1
        yield p
