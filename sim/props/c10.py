"""C10 -- maintenance never loses reachable objects; readers survive
concurrent repacks.

(a) "history": one process builds a repository by a random sequence of steps
    (loose objects, packs, duplicates across packs, refs created/moved/deleted,
    detached HEAD, tags, alternates, clock advances and skews) interleaved
    with maintenance steps; after every maintenance step the model's reachable
    closure must be intact (same instance and fresh process) and unreachable
    objects may be missing only if older than the grace period on the virtual
    clock.
(b) "readers": a maintenance actor and 1-2 reader actors with long-lived Repo
    objects interleaved at syscall granularity; refs fixed; no reader call on
    a reachable id may fail.
"""

from __future__ import annotations

import gc
import io
import json
import os
import random

from .. import simfs, util
from ..kernel import Sim, derive_seed
from ..simfs import R, is_injected
from ..workloads import history as H

PROP_ID = "C10"
LEVEL = "exploration"
RULE = ("seeded plans: (a) 4-14 build/maintenance steps on a virtual clock, "
        "checked after every maintenance step; (b) maintenance actor "
        "(pack_loose_objects/repack/gc) against 1-2 long-lived readers under "
        "{uniform,burst,pct,targeted} schedules with optional injected errors "
        "in the maintainer. Distinct by hash of the step list / event "
        "sequence; non-trivial when a maintenance step changed the set of "
        "files in objects/ (a) or reader and maintainer calls interleaved (b).")
ASSUMPTIONS = [
    "refs do not change while readers run in (b): git documents the "
    "gc-versus-ref-writer race and the property quantifies over readers",
    "an object added less than the grace period ago is 'young' whatever "
    "container holds it now (a lower bound on the container's mtime)",
    "pre-emption only at intercepted system calls; mmap reads are invisible",
]
COMPONENTS = {
    "real": ["dulwich.object_store.DiskObjectStore (lookup, iteration, "
             "pack_loose_objects, repack, prune)", "dulwich.gc", "dulwich.pack"
             " (mmap-backed packs and indexes)", "dulwich.refs", "tmpfs"],
    "stub": ["scheduler", "clock (time.time and file mtimes)",
             "stat metadata", "directory order", "temp names"],
}
PROBES = {"commit_written_during_maintenance": 1, "maintainer_removed_files": 1,
          "unreachable_pruned": 1, "young_unreachable_kept": 1,
          "lookup_during_maintenance": 1, "linked_worktree_head": 1}
MIN_BUDGET = 200

DAY = 86400
GRACE_DEFAULT = 14 * DAY


def budget(tier):
    return 12000 if tier == "quick" else 400000


def _sched(rng):
    pol = rng.choice(["uniform", "burst", "burst", "pct", "targeted",
                      "targeted"])
    s = {"policy": pol}
    if pol == "burst":
        s["p_switch"] = rng.choice([0.02, 0.08, 0.2])
    if pol == "pct":
        s["depth"] = rng.choice([1, 2, 3])
        s["est_steps"] = rng.choice([100, 400, 1500])
    if pol == "targeted":
        s["p_hot"] = rng.choice([0.2, 0.5])
        s["p_cold"] = rng.choice([0.005, 0.03])
    return s


def gen_plan(seed, tier):
    rng = random.Random(derive_seed(seed, "c10plan"))
    if seed % 3 == 0:
        return gen_history_plan(seed, rng, tier)
    return gen_readers_plan(seed, rng, tier)


BUILD = ["add_loose_reach", "add_loose_reach", "add_loose_garbage",
         "add_pack_reach", "add_pack_garbage", "dup_pack", "move_ref",
         "delete_ref", "detach_head", "attach_head", "tag", "readd",
         "worktree_head",
         "advance_hours", "advance_days", "advance_weeks", "skew_back"]
MAINT = ["pack_loose", "repack", "gc_none", "gc_zero", "gc_default",
         "prune_unreach_default", "prune_unreach_zero", "prune_tmp",
         "pack_refs", "midx", "commit_graph", "gc_default"]


def gen_history_plan(seed, rng, tier):
    n = rng.randint(4, 14)
    steps = []
    for i in range(n):
        if rng.random() < 0.4:
            steps.append({"op": rng.choice(MAINT)})
        else:
            steps.append({"op": rng.choice(BUILD), "x": rng.randrange(10**6)})
    steps.append({"op": rng.choice(MAINT)})
    # a read error (failing disk, fd exhaustion, permission) inside one
    # maintenance step: the step may fail, it may not lose anything
    rfault = None
    maint_idx = [i for i, s in enumerate(steps) if s["op"] in MAINT]
    if rng.random() < 0.35:
        rfault = {"step": rng.choice(maint_idx),
                  "nth": rng.choice([0, 1, 2, 3, 5, 8, 13, 21, 34, 55, 89]),
                  "kind": rng.choice(["EIO", "EIO", "EMFILE", "EACCES"])}
    return {"kind": "history", "seed": seed, "steps": steps,
            # submodule entries, some pinning commits of this very history
            # (own generator: the other plans of a seed stay what they were)
            "gitlinks": random.Random(derive_seed(seed, "c10gl")).random()
            < 0.3,
            "alternate": rng.random() < 0.25,
            "gran_ns": rng.choice([1, 10**9]), "rfault": rfault}


def gen_readers_plan(seed, rng, tier):
    maint = [rng.choice(["pack_loose", "pack_loose", "repack", "repack",
                         "gc_none", "gc_default", "pack_then_repack"])
             for _ in range(rng.choice([1, 1, 2]))]
    readers = []
    for i in range(rng.choice([1, 1, 2])):
        readers.append({"name": f"r{i}",
                        "ops": [rng.choice(["get_raw", "get_raw", "getitem",
                                            "contains", "iter", "subset",
                                            "get_raw_all", "iter_lookup",
                                            "iter_prefix"])
                                for _ in range(rng.randint(2, 6))],
                        "warm": rng.random() < 0.6})
    faults = []
    if rng.random() < 0.25:
        if rng.random() < 0.5:
            faults.append({"actor": "maint", "nth": rng.randrange(0, 60),
                           "kind": rng.choice(["EIO", "ENOSPC", "EPERM"])})
        else:
            faults.append({"actor": "maint", "nth": rng.randrange(0, 120),
                           "kind": rng.choice(["EIO", "EMFILE", "EACCES"]),
                           "on": "read"})
    # a third process creates new history (loose objects, then a ref) while
    # maintenance runs: what it wrote may not be swept away with the loose
    # objects the maintainer packed
    writer = rng.random() < 0.4 and not any(m in ("gc_none",) for m in maint)
    return {"kind": "readers", "seed": seed, "sched": _sched(rng),
            "gitlinks": random.Random(derive_seed(seed, "c10gl")).random()
            < 0.3,
            "writer": writer,
            # another housekeeping process sweeping stale temporary files
            # (default grace period) while the maintainer lands its packs
            "pruner": random.Random(derive_seed(seed, "c10pr")).random()
            < 0.3,
            "n_commits": rng.randint(2, 5),
            "layout": rng.choice(["loose", "mixed", "mixed", "two_packs",
                                  "packed"]),
            "garbage": rng.random() < 0.5,
            "maint": maint, "readers": readers, "faults": faults,
            "midx": rng.random() < 0.15}


# ------------------------------------------------------------------ (a)
def _pack_bytes(u, ids):
    from dulwich.object_format import DEFAULT_OBJECT_FORMAT
    from dulwich.pack import write_pack_objects
    f = io.BytesIO()
    write_pack_objects(f.write, [(u.shaobjs[i], None) for i in ids],
                       DEFAULT_OBJECT_FORMAT)
    return f.getvalue()


def _obj_files(path):
    out = set()
    base = os.path.join(path, ".git", "objects")
    for dp, dns, fns in simfs.real_walk(base):
        for n in fns:
            out.add(os.path.join(os.path.relpath(dp, base), n))
    return out


def run_history(plan):
    from dulwich.gc import garbage_collect, prune_unreachable_objects
    from dulwich.repo import Repo
    sim = Sim(seed=plan["seed"], sched={"policy": "sequential"},
              clock={"step_lo_ns": 1000, "step_hi_ns": 1000,
                     "gran_ns": plan.get("gran_ns", 1)})
    viols = []
    stats = {}
    with util.Sandbox() as root:
        fs = simfs.FS(root, sim, {"shuffle_listdir": True})
        simfs.activate(fs)
        rp = os.path.join(root, "repo")
        r0 = util.init_repo(rp)
        r0.close()
        u = H.Universe()
        rng = random.Random(derive_seed(plan["seed"], "c10hist"))
        refs = {}  # model: name -> id ; HEAD handled separately
        head = ("sym", b"refs/heads/main")
        first_added = {}  # id -> virtual seconds when (last) added
        present = set()
        alt_ids = set()
        heads = []
        applied = []

        def now():
            return sim.clock.now_ns / 1e9

        wt_heads = {}  # linked work trees: name -> detached HEAD

        def reach():
            vals = list(refs.values()) + list(wt_heads.values())
            if head[0] == "sha":
                vals.append(head[1])
            return u.closure(vals)

        def body(a):
            nonlocal head
            r = Repo(rp)
            st = r.object_store
            if plan.get("alternate"):
                altp = os.path.join(root, "alt", "objects")
                R.makedirs(altp)
                from dulwich.object_store import DiskObjectStore
                alt = DiskObjectStore.init(altp)
                hb = H.gen_history(u, rng, 2, salt=b"ALT", tags=False)
                ids = sorted(u.closure(hb["commits"]))
                u.add_to_store(alt, ids)
                alt.close()
                st.add_alternate_path(altp)
                alt_ids.update(ids)
                heads.extend(hb["heads"])
                refs[b"refs/heads/alt"] = hb["heads"][-1]
                r.refs[b"refs/heads/alt"] = hb["heads"][-1]
            cnt = [0]

            def new_chain(parent_ok=True, salt=b""):
                cnt[0] += 1
                hb = H.gen_history(u, rng, rng.randint(1, 3)
                                   + (2 if plan.get("gitlinks") else 0),
                                   t0=1700000000 + cnt[0] * 1000,
                                   salt=b"S%d%s" % (cnt[0], salt), tags=False,
                                   gitlinks=bool(plan.get("gitlinks")))
                top = hb["commits"][-1]
                lh = live_heads()
                if parent_ok and lh and rng.random() < 0.6:
                    # graft on existing history so closures overlap
                    top = u.commit(hb["trees_of"][top], [rng.choice(lh)],
                                   1700000000 + cnt[0] * 1000 + 500,
                                   b"join %d\n" % cnt[0])
                return top, sorted(u.closure([top]))

            def add_ids(ids, how):
                t = now()
                newids = [i for i in ids if i not in alt_ids]
                if how == "loose":
                    u.add_to_store(st, newids)
                else:
                    data = _pack_bytes(u, newids)
                    f, commit, abort = st.add_pack()
                    f.write(data)
                    commit()
                for i in newids:
                    present.add(i)
                    first_added[i] = t

            def live_heads():
                # commits whose whole closure is still known to be stored
                have = present | alt_ids
                return [h for h in heads if u.closure([h]) <= have]

            for si, step in enumerate(plan["steps"]):
                op = step["op"]
                srng = random.Random(step.get("x", 0))
                before_files = None
                if op == "add_loose_reach" or op == "add_pack_reach":
                    top, ids = new_chain()
                    add_ids(ids, "loose" if "loose" in op else "pack")
                    nm = b"refs/heads/br%d" % srng.randrange(4)
                    r.refs[nm] = top
                    refs[nm] = top
                    heads.append(top)
                    if not refs.get(b"refs/heads/main"):
                        r.refs[b"refs/heads/main"] = top
                        refs[b"refs/heads/main"] = top
                elif op == "add_loose_garbage" or op == "add_pack_garbage":
                    top, ids = new_chain(parent_ok=srng.random() < 0.5,
                                         salt=b"G")
                    add_ids(ids, "loose" if "loose" in op else "pack")
                elif op == "dup_pack":
                    if present:
                        ids = srng.sample(sorted(present),
                                          min(len(present), srng.randint(1, 6)))
                        t_keep = {i: first_added[i] for i in ids}
                        add_ids(ids, "pack")
                elif op == "readd":
                    # re-adding an existing object must freshen it
                    if present:
                        ids = srng.sample(sorted(present),
                                          min(len(present), srng.randint(1, 4)))
                        t = now()
                        u.add_to_store(st, ids)
                        for i in ids:
                            first_added[i] = t
                elif op == "move_ref":
                    lh = live_heads()
                    if lh and refs:
                        nm = srng.choice(sorted(refs))
                        tgt = srng.choice(lh)
                        r.refs[nm] = tgt
                        refs[nm] = tgt
                elif op == "delete_ref":
                    cands = [n for n in sorted(refs)
                             if n != b"refs/heads/main"]
                    if cands:
                        nm = srng.choice(cands)
                        del r.refs[nm]
                        del refs[nm]
                elif op == "detach_head":
                    lh = live_heads()
                    if lh:
                        tgt = srng.choice(lh)
                        # write a detached HEAD explicitly (assigning through
                        # refs[b"HEAD"] would follow the symref and move main)
                        with open(os.path.join(rp, ".git", "HEAD"), "wb") as f:
                            f.write(tgt + b"\n")
                        head = ("sha", tgt)
                elif op == "attach_head":
                    r.refs.set_symbolic_ref(b"HEAD", b"refs/heads/main")
                    head = ("sym", b"refs/heads/main")
                elif op == "worktree_head":
                    # a linked work tree (git worktree add --detach), laid
                    # out as git does: its HEAD is a HEAD too
                    lh = live_heads()
                    if lh:
                        tgt = srng.choice(lh)
                        wn = "w%d" % (step["x"] % 2)
                        adm = os.path.join(rp, ".git", "worktrees", wn)
                        wtp = os.path.join(root, "linked-" + wn)
                        R.makedirs(adm, exist_ok=True)
                        R.makedirs(wtp, exist_ok=True)
                        for fn, data in (
                                ("HEAD", tgt + b"\n"),
                                ("commondir", b"../..\n"),
                                ("gitdir", os.fsencode(
                                    os.path.join(wtp, ".git")) + b"\n")):
                            with open(os.path.join(adm, fn), "wb") as f:
                                f.write(data)
                        with open(os.path.join(wtp, ".git"), "wb") as f:
                            f.write(b"gitdir: " + os.fsencode(adm) + b"\n")
                        wt_heads[wn] = tgt
                        sim.stat("probe:linked_worktree_head")
                        if step["x"] % 3 != 0:
                            # ... and the branches it was taken from go
                            for nm in [n for n in sorted(refs)
                                       if refs[n] == tgt and
                                       n != b"refs/heads/main"]:
                                del r.refs[nm]
                                del refs[nm]
                elif op == "tag":
                    have = present | alt_ids
                    cands = sorted(i for i in present
                                   if u.closure([i]) <= have)
                    if cands:
                        tgt = srng.choice(cands)
                        tg = u.tag(b"t%d" % si, tgt, 1700000000 + si)
                        add_ids([tg], "loose")
                        r.refs[b"refs/tags/t%d" % si] = tg
                        refs[b"refs/tags/t%d" % si] = tg
                elif op == "advance_hours":
                    sim.clock.advance(srng.randint(1, 20) * 3600 * 10**9)
                elif op == "advance_days":
                    sim.clock.advance(srng.randint(1, 6) * DAY * 10**9)
                elif op == "advance_weeks":
                    sim.clock.advance(srng.randint(2, 5) * 7 * DAY * 10**9)
                elif op == "skew_back":
                    sim.clock.advance(-srng.randint(1, 72) * 3600 * 10**9)
                    # a container rewritten from now on may carry a stamp
                    # earlier than the original addition: lower the bound
                    t = now()
                    for i in first_added:
                        first_added[i] = min(first_added[i], t)
                else:
                    # maintenance
                    before_files = _obj_files(rp)
                    grace = {"gc_none": None, "gc_zero": 0,
                             "gc_default": GRACE_DEFAULT,
                             "prune_unreach_default": GRACE_DEFAULT,
                             "prune_unreach_zero": 0}.get(op, "keep")
                    rf = plan.get("rfault")
                    if rf and rf["step"] == si:
                        a.rcount = 0
                        sim.rfaults = {("main", rf["nth"]): rf["kind"]}
                    try:
                        _maintain(op, r, st)
                    except BaseException as e:  # noqa: BLE001
                        if not is_injected(e):
                            raise
                        sim.stat("probe:maintenance_failed_on_read_error")
                    finally:
                        sim.rfaults = {}
                    if _obj_files(rp) != before_files:
                        sim.stat("probe:maintainer_removed_files")
                        a.local["changed"] = True
                    check_after(op, si, grace, st, "same-instance")
                    fr = Repo(rp)
                    try:
                        check_after(op, si, grace, fr.object_store,
                                    "fresh-process", final=True)
                    finally:
                        fr.close()
                applied.append(op)
            r.close()

        def _maintain(op, r, st):
            if op == "pack_loose":
                st.pack_loose_objects()
            elif op == "repack":
                st.repack()
            elif op == "gc_none":
                garbage_collect(r, grace_period=None)
            elif op == "gc_zero":
                garbage_collect(r, grace_period=0)
            elif op == "gc_default":
                garbage_collect(r)
            elif op == "prune_unreach_default":
                prune_unreachable_objects(st, r.refs,
                                          grace_period=GRACE_DEFAULT)
            elif op == "prune_unreach_zero":
                prune_unreachable_objects(st, r.refs, grace_period=0)
            elif op == "prune_tmp":
                st.prune(grace_period=0)
            elif op == "pack_refs":
                r.refs.pack_refs(all=True)
            elif op == "midx":
                st.write_midx()
            elif op == "commit_graph":
                st.write_commit_graph()
            else:
                raise ValueError(op)

        def check_after(op, si, grace, store, who, final=False):
            rc = reach()
            t = now()
            lost = []
            for oid in sorted(rc):
                w = u.intact_in(store, oid)
                if w:
                    lost.append((w, oid.decode()))
            if lost:
                cls = "content-changed" if any(
                    w == "content-differs" for w, _ in lost) else \
                    "reachable-lost"
                viols.append({"sig": f"C10/{cls}/{op}/{who}",
                              "detail": f"step {si} {op}: {lost[:4]} head="
                              f"{head} steps={[s['op'] for s in plan['steps'][:si + 1]]}"})
            for oid in sorted(present - rc):
                w = u.intact_in(store, oid)
                if w is None:
                    if grace not in ("keep", None):
                        sim.stat("probe:young_unreachable_kept")
                    if final and grace != "keep" and (
                            grace is None or t - first_added[oid] >= grace):
                        # its youngest copy was fair game for this pruning op
                        # and may be gone; what is left can be of any age
                        first_added[oid] = float("-inf")
                    continue
                if w != "missing":
                    viols.append({"sig": f"C10/content-changed/{op}/{who}",
                                  "detail": f"unreachable {oid}: {w}"})
                    continue
                age = t - first_added[oid]
                if grace == "keep":
                    viols.append({
                        "sig": f"C10/unreachable-dropped-by-non-pruning-op/{op}/{who}",
                        "detail": f"step {si}: {oid.decode()} vanished"})
                elif grace is not None and age < grace:
                    viols.append({
                        "sig": f"C10/young-unreachable-pruned/{op}/{who}",
                        "detail": f"step {si}: {oid.decode()} age {age:.0f}s "
                        f"< grace {grace}s; steps="
                        f"{[s['op'] for s in plan['steps'][:si + 1]]}"})
                else:
                    sim.stat("probe:unreachable_pruned")
                if final:
                    present.discard(oid)

        act = sim.run_inline("main", body)
        gc.collect()
        if act.exc is not None:
            viols.append({"sig": f"C10/step-raised/{type(act.exc).__name__}/"
                          f"{plan['steps'][len(applied)]['op'] if len(applied) < len(plan['steps']) else 'end'}",
                          "detail": repr(act.exc)[:500]})
        nontrivial = bool(act.local.get("changed"))
        simfs.deactivate()
    return _result(sim, plan, viols, nontrivial,
                   util.h8([s["op"] for s in plan["steps"]] +
                           [sim.digest()]))


def _result(sim, plan, viols, nontrivial, ih):
    seen = set()
    out = []
    for s, d in sim.violations:
        viols.append({"sig": s, "detail": d})
    for v in viols:
        if v["sig"] not in seen:
            seen.add(v["sig"])
            out.append(v)
    stats = dict(sim.stats)
    stats["sim_ns"] = max(0, sim.clock.advanced)
    stats["steps"] = sim.steps
    for f in sim.fired:
        k = "fault:" + f[2] + "@" + f[3]
        stats[k] = stats.get(k, 0) + 1
    stats["kind:" + plan["kind"]] = 1
    stats["policy:" + (plan.get("sched") or {}).get("policy", "sequential")] = 1
    return {"violations": out, "digest": sim.digest(), "ihash": ih,
            "nontrivial": nontrivial, "trace": sim.trace_out, "stats": stats,
            "events": sim.events,
            "sample": {"plan": plan, "events": len(sim.events or [])}}


# ------------------------------------------------------------------ (b)
def run_readers(plan):
    from dulwich.errors import NotGitRepository  # noqa: F401
    from dulwich.gc import garbage_collect
    from dulwich.pack import PackFileDisappeared
    from dulwich.repo import Repo
    sim = Sim(seed=plan["seed"], sched=plan["sched"],
              clock={"step_lo_ns": 1000, "step_hi_ns": 10**6},
              faults=plan.get("faults"), step_cap=200000)
    viols = []
    with util.Sandbox() as root:
        fs = simfs.FS(root, sim)
        simfs.activate(fs)
        rp = os.path.join(root, "repo")
        r0 = util.init_repo(rp)
        u = H.Universe()
        rng = random.Random(derive_seed(plan["seed"], "c10rd"))
        hb = H.gen_history(u, rng, plan["n_commits"], salt=b"R",
                           gitlinks=bool(plan.get("gitlinks")))
        ids = sorted(u.closure(hb["commits"] + list(hb["tags"].values())))
        st = r0.object_store
        lay = plan["layout"]
        if lay == "loose":
            u.add_to_store(st, ids)
        elif lay == "packed":
            u.add_to_store(st, ids)
            st.pack_loose_objects()
        elif lay == "mixed":
            half = ids[:len(ids) // 2]
            u.add_to_store(st, half)
            st.pack_loose_objects()
            u.add_to_store(st, ids[len(ids) // 2:])
        else:  # two_packs (+ a few loose duplicates)
            half = ids[:len(ids) // 2]
            u.add_to_store(st, half)
            st.pack_loose_objects()
            u.add_to_store(st, ids[len(ids) // 2:])
            st.pack_loose_objects()
            u.add_to_store(st, ids[:3])
        for i, h in enumerate(hb["heads"]):
            r0.refs[b"refs/heads/h%d" % i] = h
        for k, v in hb["tags"].items():
            r0.refs[k] = v
        r0.refs.set_symbolic_ref(b"HEAD", b"refs/heads/h0")
        reach = sorted(u.closure(list(hb["heads"]) + list(hb["tags"].values())))
        reach_tip = hb["heads"][0]
        garbage = []
        if plan["garbage"]:
            g = H.gen_history(u, rng, 2, salt=b"GARB", tags=False)
            garbage = sorted(u.closure(g["commits"]) - set(reach))
            u.add_to_store(st, garbage)
        if plan.get("midx"):
            st.write_midx()
        r0.close()
        # garbage is old enough to be pruned by a default-grace gc
        sim.clock.advance(30 * DAY * 10**9)
        state = {"maint_running": False, "maint_done": False}
        reach_set = set(reach)

        def maint(a):
            try:
                r = Repo(rp)
            except BaseException as e:  # noqa: BLE001
                if not is_injected(e):
                    raise
                state["maint_done"] = True
                return  # the maintainer could not even open the repository
            state["maint_running"] = True
            try:
                for op in plan["maint"]:
                    try:
                        if op == "pack_loose":
                            r.object_store.pack_loose_objects()
                        elif op == "repack":
                            r.object_store.repack()
                        elif op == "pack_then_repack":
                            r.object_store.pack_loose_objects()
                            r.object_store.repack()
                        elif op == "gc_none":
                            garbage_collect(r, grace_period=None)
                        elif op == "gc_default":
                            garbage_collect(r)
                    except BaseException as e:  # noqa: BLE001
                        if not is_injected(e):
                            raise
            finally:
                state["maint_running"] = False
                state["maint_done"] = True
                r.close()

        def reader(spec):
            def body(a):
                r = Repo(rp)
                st = r.object_store
                rr = random.Random(derive_seed(plan["seed"], spec["name"]))
                try:
                    if spec["warm"]:
                        # open packs before maintenance starts changing them
                        list(st.packs)
                        st.get_raw(reach[0])
                    for op in spec["ops"]:
                        oid = rr.choice(reach)
                        during = state["maint_running"]
                        try:
                            if op == "get_raw":
                                got = st.get_raw(oid)
                                if got != u.objs[oid]:
                                    viols.append({
                                        "sig": "C10/content-changed/reader/get_raw",
                                        "detail": oid.decode()})
                            elif op == "get_raw_all":
                                for o2 in reach:
                                    oid = o2
                                    got = st.get_raw(o2)
                                    if got != u.objs[o2]:
                                        viols.append({
                                            "sig": "C10/content-changed/reader/get_raw",
                                            "detail": o2.decode()})
                            elif op == "getitem":
                                o = st[oid]
                                if o.as_raw_string() != u.objs[oid][1]:
                                    viols.append({
                                        "sig": "C10/content-changed/reader/getitem",
                                        "detail": oid.decode()})
                            elif op == "contains":
                                if oid not in st:
                                    viols.append({
                                        "sig": "C10/reader-spurious-missing/contains",
                                        "detail": f"{oid.decode()} reported "
                                        f"absent during={during}"})
                            elif op == "iter":
                                seen = set(st)
                                miss = [i for i in reach if i not in seen]
                                if miss:
                                    viols.append({
                                        "sig": "C10/iteration-missed-object/iter",
                                        "detail": f"{len(miss)} of "
                                        f"{len(reach)} reachable ids not "
                                        f"listed, e.g. {miss[0].decode()}"})
                            elif op == "iter_lookup":
                                # iterate and look each id up on the way, on
                                # one handle (what write_commit_graph does)
                                seen = set()
                                for i in st:
                                    seen.add(i)
                                    if i in reach_set:
                                        # (garbage may rightly be pruned
                                        # between the listing and now)
                                        oid = i
                                        st.get_raw(i)
                                miss = [i for i in reach if i not in seen]
                                if miss:
                                    viols.append({
                                        "sig": "C10/iteration-missed-object/"
                                               "iter_lookup",
                                        "detail": f"{len(miss)} of "
                                        f"{len(reach)} reachable ids not "
                                        f"listed, e.g. {miss[0].decode()}"})
                            elif op == "iter_prefix":
                                # how an abbreviated id is resolved
                                k = rr.choice([2, 4, 7, 8, 12, 39, 40])
                                got = list(st.iter_prefix(oid[:k]))
                                if oid not in got:
                                    viols.append({
                                        "sig": "C10/reader-spurious-missing/"
                                               "iter_prefix",
                                        "detail": f"{oid.decode()} not among "
                                        f"the ids with prefix {oid[:k]!r}: "
                                        f"{got[:3]}"})
                            elif op == "subset":
                                want = rr.sample(reach, min(len(reach), 5))
                                got = {o.id for o in st.iterobjects_subset(want)}
                                if got != set(want):
                                    viols.append({
                                        "sig": "C10/reader-spurious-missing/subset",
                                        "detail": f"missing "
                                        f"{sorted(set(want) - got)[:3]}"})
                            if during or state["maint_running"]:
                                sim.stat("probe:lookup_during_maintenance")
                        except KeyError as e:
                            if os.environ.get("VERIF_DEBUG_TB"):
                                import traceback
                                traceback.print_exc()
                            viols.append({
                                "sig": f"C10/reader-spurious-missing/{op}",
                                "detail": f"KeyError {e} for reachable "
                                f"{oid.decode()} (maintenance running: "
                                f"{during or state['maint_running']})"})
                        except PackFileDisappeared as e:
                            if os.environ.get("VERIF_DEBUG_TB"):
                                import traceback
                                traceback.print_exc()
                            viols.append({
                                "sig": f"C10/pack-disappeared-escaped/{op}",
                                "detail": repr(e)[:300]})
                        except Exception as e:  # noqa: BLE001
                            if os.environ.get("VERIF_DEBUG_TB"):
                                import traceback
                                traceback.print_exc()
                            viols.append({
                                "sig": f"C10/reader-exception/{op}/"
                                f"{type(e).__name__}",
                                "detail": repr(e)[:300]})
                finally:
                    r.close()
            return body

        written = {}

        def writer_body(a):
            r = Repo(rp)
            try:
                for j in range(2):
                    blob = u.blob(b"written during maintenance %d %d\n" %
                                  (plan["seed"], j))
                    tree = u.tree([(b"w%d.txt" % j, 0o100644, blob)])
                    top = u.commit(tree, [reach_tip], 1700900000 + j,
                                   b"concurrent %d\n" % j)
                    u.add_to_store(r.object_store, [blob, tree, top])
                    r.refs[b"refs/heads/written%d" % j] = top
                    written[b"refs/heads/written%d" % j] = top
                    sim.stat("probe:commit_written_during_maintenance")
            except BaseException as e:  # noqa: BLE001
                if not is_injected(e):
                    raise
            finally:
                r.close()
        def pruner_body(a):
            r = Repo(rp)
            try:
                for _ in range(3):
                    # nothing in this run is older than a few seconds of
                    # virtual time: a sweep with the default grace period
                    # has nothing it may remove
                    try:
                        r.object_store.prune()
                    except OSError:
                        # a temporary file it had listed was renamed into
                        # place by the maintainer before it looked at it:
                        # the sweep dies, nothing is lost -- robustness, not
                        # what C10 promises (counted)
                        sim.stat("pruner_step_failed")
                    sim.stat("probe:temp_file_sweep_during_maintenance")
            finally:
                r.close()
        if plan.get("writer"):
            sim.actor("writer", writer_body)
        if plan.get("pruner"):
            sim.actor("pruner", pruner_body)
        sim.actor("maint", maint)
        for spec in plan["readers"]:
            sim.actor(spec["name"], reader(spec))
        files_before = _obj_files(rp)
        sim.run()
        gc.collect()
        if sim.abort_reason:
            viols.append({"sig": f"C10/{sim.abort_reason}",
                          "detail": "run did not finish"})
        for a in sim.actors:
            if a.exc is not None:
                viols.append({
                    "sig": f"C10/actor-exception/{a.name[:5]}/"
                    f"{type(a.exc).__name__}", "detail": repr(a.exc)[:400]})
        simfs.deactivate()
        changed = _obj_files(rp) != files_before
        if changed:
            sim.stat("probe:maintainer_removed_files")
        # final: everything reachable intact for a fresh process
        fr = Repo(rp)
        try:
            lost = [(w, i.decode()) for i in reach
                    for w in [u.intact_in(fr.object_store, i)] if w]
            if lost:
                viols.append({"sig": "C10/reachable-lost/readers/" +
                              "+".join(sorted(set(plan["maint"]))) +
                              ("/after-fault" if sim.fired else ""),
                              "detail": f"{lost[:4]}"})
            # what the concurrent writer committed (its refs exist)
            for rn, top in sorted(written.items()):
                if fr.refs.read_ref(rn) != top:
                    continue
                lostw = [(w, i.decode()) for i in sorted(u.closure([top]))
                         for w in [u.intact_in(fr.object_store, i)] if w]
                if lostw:
                    viols.append({
                        "sig": "C10/reachable-lost/written-during-maintenance/"
                        + "+".join(sorted(set(plan["maint"]))) +
                        ("/after-fault" if sim.fired else ""),
                        "detail": f"{rn!r}: {lostw[:3]}"})
                    break
        finally:
            fr.close()
        nontrivial = changed and len(sim.trace_out) > 3
    ih = util.h8([(e[1], e[2], e[3]) for e in sim.events])
    return _result(sim, plan, viols, nontrivial, ih)


def run_plan(plan):
    if plan["kind"] == "history":
        return run_history(plan)
    return run_readers(plan)


def shrink(plan):
    def cp():
        return json.loads(json.dumps(plan))
    if plan["kind"] == "history":
        st = plan["steps"]
        for i in range(len(st) - 1, -1, -1):
            if len(st) > 1:
                p = cp()
                del p["steps"][i]
                yield p
        if plan.get("alternate"):
            p = cp()
            p["alternate"] = False
            yield p
    else:
        for i, rd in enumerate(plan["readers"]):
            if len(plan["readers"]) > 1:
                p = cp()
                del p["readers"][i]
                yield p
            for j in range(len(rd["ops"]) - 1, -1, -1):
                if len(rd["ops"]) > 1:
                    p = cp()
                    del p["readers"][i]["ops"][j]
                    yield p
        if len(plan["maint"]) > 1:
            for j in range(len(plan["maint"])):
                p = cp()
                del p["maint"][j]
                yield p
        if plan["faults"]:
            p = cp()
            p["faults"] = []
            yield p
        for k, v in (("garbage", False), ("midx", False)):
            if plan.get(k):
                p = cp()
                p[k] = v
                yield p
        if plan["n_commits"] > 2:
            p = cp()
            p["n_commits"] -= 1
            yield p
