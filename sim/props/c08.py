"""C08 -- ref updates are atomic compare-and-swap; concurrent commits are
never lost.

Scenarios:
  refops    2-3 actors, each its own DiskRefsContainer on one repository, run
            1-3 ref operations each under a seeded syscall-level schedule; the
            recorded invoke/return history must be linearizable against the
            sequential ref-map model and the final on-disk map must match.
  commit    2-3 committers (WorkTree.commit, separate Repo instances) + an
            optional pack_refs actor and reader on one branch.
  memcommit same through MemoryRepo.do_commit on a shared in-memory repo, each
            container method call being one step.
"""

from __future__ import annotations

import gc
import hashlib
import json
import os
import random

from .. import simfs, util
from ..kernel import Sim, derive_seed
from ..models import lin, refs as M
from ..simfs import R

PROP_ID = "C08"
LEVEL = "exploration"
RULE = ("seeded plans: initial ref state over {refs/heads/a, refs/heads/b, "
        "refs/tags/t, HEAD} x {absent, loose, packed, loose-over-packed}, 2-3 "
        "actors x 1-3 ops from {set_if_equals, add_if_new, remove_if_equals, "
        "set, delete, set_symbolic_ref, pack_refs, get, read_ref, as_dict, "
        "locked_ref CAS} or committers on one branch; schedule from "
        "{uniform,burst,pct,targeted}. Distinct by hash of the "
        "(actor,call,path) event sequence; non-trivial when at least two "
        "actors' operations overlapped in time.")
ASSUMPTIONS = [
    "process-level concurrency (each actor owns its container/Repo objects); "
    "pre-emption only at intercepted system calls",
    "schedules are sampled (PCT depth<=3, targeted, burst, uniform), not "
    "enumerated",
    "multi-name reads (as_dict) are judged per name inside the call interval, "
    "not as atomic snapshots",
    "a CAS that returns False although its expected value was current "
    "throughout counts as a violation (spurious-cas-failure class)",
]
COMPONENTS = {
    "real": ["dulwich.refs.DiskRefsContainer", "dulwich.refs.locked_ref",
             "dulwich.worktree.WorkTree.commit", "dulwich.repo.MemoryRepo",
             "dulwich.file.GitFile", "tmpfs"],
    "stub": ["scheduler", "clock", "stat metadata", "directory order"],
}
PROBES = {"overlap": 1, "filelocked": 1, "cas_false": 1,
          "pack_during_update": 1, "commit_conflict": 1}
MIN_BUDGET = 300

A = "refs/heads/a"
B = "refs/heads/b"
T = "refs/tags/t"
H = "HEAD"
NAMES = [A, B, T, H]


def val(n):
    return hashlib.sha1(b"val%d" % n).hexdigest()


def budget(tier):
    return 40000 if tier == "quick" else 1500000


def _sched(rng):
    pol = rng.choice(["uniform", "burst", "burst", "pct", "pct", "targeted",
                      "targeted"])
    s = {"policy": pol}
    if pol == "burst":
        s["p_switch"] = rng.choice([0.03, 0.1, 0.25])
    if pol == "pct":
        s["depth"] = rng.choice([1, 2, 3])
        s["est_steps"] = rng.choice([30, 80, 200])
    if pol == "targeted":
        s["p_hot"] = rng.choice([0.3, 0.6])
        s["p_cold"] = rng.choice([0.01, 0.05])
    return s


def gen_plan(seed, tier):
    rng = random.Random(derive_seed(seed, "c08plan"))
    r = seed % 10
    if r in (0, 1):
        return gen_commit(seed, rng, tier, mem=False)
    if r == 2:
        return gen_commit(seed, rng, tier, mem=True)
    return gen_refops(seed, rng, tier)


def gen_refops(seed, rng, tier):
    nv = [0]

    def fresh():
        nv[0] += 1
        return val(nv[0])

    init = {}
    for n in (A, B, T):
        mode = rng.choice(["absent", "loose", "loose", "packed", "packed",
                           "both"])
        if mode == "absent":
            continue
        if mode == "both":
            init[n] = {"packed": fresh(), "loose": fresh()}
        else:
            init[n] = {mode: fresh()}
    hm = rng.choice(["A", "A", "A", "B", "detached"])
    if hm == "detached":
        init[H] = {"loose": fresh()}
    else:
        init[H] = {"sym": A if hm == "A" else B}
    peeled = rng.random() < 0.3
    na = rng.choice([2, 2, 3])
    actors = []
    focus = rng.choice([A, A, B, T])
    for i in range(na):
        ops = []
        for _ in range(rng.randint(1, 3)):
            name = focus if rng.random() < 0.7 else rng.choice([A, B, T, H])
            k = rng.choice(["cas", "cas", "cas", "add", "rm", "set", "del",
                            "symref", "pack", "pack", "get", "get", "raw",
                            "dict", "lcas", "has"])
            op = {"kind": k}
            # now and then a ref is set back to the older value that its
            # packed-refs entry still holds under the loose file
            shadowed = init.get(name, {}).get("packed") if \
                "loose" in init.get(name, {}) else None
            if k in ("cas", "lcas"):
                op["name"] = name
                op["old"] = rng.choice(["init", "init", "last", "last",
                                        "zero", "stale"])
                op["new"] = fresh()
                if shadowed and rng.random() < 0.3:
                    op["new"] = shadowed
            elif k == "add":
                op["name"] = name
                op["new"] = fresh()
            elif k == "rm":
                op["name"] = name if name != H else A
                op["old"] = rng.choice(["init", "last", "stale"])
            elif k == "set":
                op["name"] = name
                op["new"] = fresh()
                if shadowed and rng.random() < 0.3:
                    op["new"] = shadowed
            elif k == "del":
                op["name"] = name if name != H else B
            elif k == "symref":
                op["name"] = H
                op["target"] = rng.choice([A, B])
            elif k in ("get", "raw", "has"):
                op["name"] = name
            ops.append(op)
        actors.append({"name": f"p{i}", "ops": ops})
    return {"kind": "refops", "seed": seed, "sched": _sched(rng),
            "init": init, "peeled": peeled, "actors": actors,
            "stale_lock": rng.choice([None] * 15 + [A, "packed-refs"]),
            "stale_val": fresh(),
            "clock": {"step_lo_ns": 0,
                      "step_hi_ns": rng.choice([0, 1000, 10**6, 10**9])},
            "gran_ns": rng.choice([1, 1, 10**6, 10**9])}


def gen_commit(seed, rng, tier, mem):
    nc = rng.choice([2, 2, 3])
    actors = []
    for i in range(nc):
        actors.append({"name": f"c{i}", "role": "committer",
                       "n": rng.choice([1, 1, 2]),
                       "ref": rng.choice([A, A, H])})
    if not mem and rng.random() < 0.5:
        actors.append({"name": "packer", "role": "packer",
                       "n": rng.choice([1, 2])})
    if rng.random() < 0.5:
        actors.append({"name": "reader", "role": "reader",
                       "n": rng.randint(2, 5)})
    return {"kind": "memcommit" if mem else "commit", "seed": seed,
            "sched": _sched(rng), "actors": actors,
            # first commits of a branch that does not exist yet race too
            "unborn": rng.random() < 0.3,
            "packed_initially": rng.random() < 0.4,
            "clock": {"step_lo_ns": 0, "step_hi_ns": rng.choice([0, 1000])}}


# ----------------------------------------------------------------- refops
def _write_real(path, data):
    R.makedirs(os.path.dirname(path), exist_ok=True)
    fd = R.os_open(path, os.O_WRONLY | os.O_CREAT | os.O_TRUNC, 0o644)
    try:
        R.write(fd, data)
    finally:
        R.close(fd)


def setup_refs(gitdir, plan):
    """Write the initial ref state with plain file writes."""
    init = plan["init"]
    packed = {}
    model = {}
    for n, spec in sorted(init.items()):
        if "sym" in spec:
            _write_real(os.path.join(gitdir, n),
                        b"ref: " + spec["sym"].encode() + b"\n")
            model[n] = M.SYM + spec["sym"]
            continue
        if "packed" in spec:
            packed[n] = spec["packed"]
            model[n] = spec["packed"]
        if "loose" in spec:
            _write_real(os.path.join(gitdir, n),
                        spec["loose"].encode() + b"\n")
            model[n] = spec["loose"]
    if packed:
        lines = [b"# pack-refs with: peeled fully-peeled sorted \n"]
        for n in sorted(packed):
            lines.append(packed[n].encode() + b" " + n.encode() + b"\n")
            if plan.get("peeled") and n == T:
                lines.append(b"^" + val(9000).encode() + b"\n")
        _write_real(os.path.join(gitdir, "packed-refs"), b"".join(lines))
    return model


def run_refops(plan):
    from dulwich.file import FileLocked
    from dulwich.refs import DiskRefsContainer, locked_ref
    clock = dict(plan.get("clock") or {})
    clock["gran_ns"] = plan.get("gran_ns", 1)
    sim = Sim(seed=plan["seed"], sched=plan["sched"], clock=clock,
              step_cap=20000)
    with util.Sandbox() as root:
        gitdir = os.path.join(root, "repo", ".git")
        R.makedirs(os.path.join(gitdir, "refs", "heads"))
        R.makedirs(os.path.join(gitdir, "refs", "tags"))
        fs = simfs.FS(root, sim)
        simfs.activate(fs)
        model0 = setup_refs(gitdir, plan)
        for p, _, _ in simfs.real_walk(gitdir):
            fs.touch_path(p)
        if plan.get("stale_lock"):
            sl = plan["stale_lock"]
            _write_real(os.path.join(gitdir, sl + ".lock"), b"stale")
        init_resolved = {}
        for n in NAMES:
            real, cur = M.follow(model0, n)
            init_resolved[n] = cur
        history = []

        def actor_body(spec):
            name = spec["name"]

            def body(a):
                refs = DiskRefsContainer(gitdir)
                last = {}

                def old_of(op):
                    n = op["name"]
                    mode = op.get("old")
                    if mode == "zero":
                        return M.ZERO
                    if mode == "stale":
                        return plan["stale_val"]
                    if mode == "last" and n in last:
                        v = last[n]
                    else:
                        if op["kind"] == "rm":
                            v = model0.get(n)
                            if v is not None and v.startswith(M.SYM):
                                v = None
                        else:
                            v = init_resolved.get(n)
                    return v if v is not None else M.ZERO

                for op in spec["ops"]:
                    k = op["kind"]
                    rec = {"actor": name, "op": dict(op)}
                    n = op.get("name")
                    nb = n.encode() if n else None
                    rec["inv"] = sim.stamp()
                    try:
                        if k == "cas":
                            old = old_of(op)
                            rec["op"]["old"] = old
                            res = refs.set_if_equals(nb, old.encode(),
                                                     op["new"].encode())
                            if res:
                                last[M.follow(model0, n)[0]] = op["new"]
                                last[n] = op["new"]
                            else:
                                sim.stat("probe:cas_false")
                        elif k == "lcas":
                            old = old_of(op)
                            if old == M.ZERO:
                                old = None
                            rec["op"]["old"] = old
                            with locked_ref(refs, nb) as lr:
                                if lr.ensure_equals(
                                        old.encode() if old else None):
                                    lr.set(op["new"].encode())
                                    res = True
                                else:
                                    res = False
                        elif k == "add":
                            res = refs.add_if_new(nb, op["new"].encode())
                        elif k == "rm":
                            old = old_of(op)
                            rec["op"]["old"] = old
                            res = refs.remove_if_equals(nb, old.encode())
                        elif k == "set":
                            refs[nb] = op["new"].encode()
                            rec["op"] = {"kind": "cas", "name": n,
                                         "old": None, "new": op["new"]}
                            res = True
                            last[n] = op["new"]
                        elif k == "del":
                            del refs[nb]
                            rec["op"] = {"kind": "rm", "name": n, "old": None}
                            res = True
                        elif k == "symref":
                            refs.set_symbolic_ref(nb, op["target"].encode())
                            res = None
                        elif k == "pack":
                            refs.pack_refs(all=True)
                            res = None
                        elif k == "get":
                            try:
                                res = refs[nb].decode()
                                last[n] = res
                            except KeyError:
                                res = "KeyError"
                        elif k == "has":
                            res = nb in refs
                        elif k == "raw":
                            v = refs.read_ref(nb)
                            res = v.decode() if v is not None else None
                        elif k == "dict":
                            d = refs.as_dict()
                            res = {kk.decode(): vv.decode()
                                   for kk, vv in d.items()}
                        else:
                            raise ValueError(k)
                        rec["res"] = res
                    except FileLocked as e:
                        sim.stat("probe:filelocked")
                        rec["raised"] = "FileLocked"
                    except Exception as e:  # noqa: BLE001
                        rec["raised"] = type(e).__name__
                        rec["exc"] = repr(e)[:200]
                    rec["ret"] = sim.stamp()
                    history.append(rec)
            return body

        for spec in plan["actors"]:
            sim.actor(spec["name"], actor_body(spec))
        sim.run()
        gc.collect()
        res = _finish(sim, plan, fs)
        if sim.abort_reason:
            res["violations"].append({"sig": f"C08/{sim.abort_reason}",
                                      "detail": "run did not finish"})
            simfs.deactivate()
            return res
        for a in sim.actors:
            if a.exc is not None:
                res["violations"].append({
                    "sig": f"C08/harness-actor-exception/{type(a.exc).__name__}",
                    "detail": repr(a.exc)})
        # final state as a fresh process sees it
        simfs.deactivate()
        final = DiskRefsContainer(gitdir)
        t = sim.stamp()
        for n in NAMES:
            try:
                v = final.read_ref(n.encode())
                rv = v.decode() if v is not None else None
            except Exception as e:  # noqa: BLE001
                rv = "ERR:" + type(e).__name__
            history.append({"actor": "final", "op": {"kind": "raw", "name": n},
                            "res": rv, "inv": t + 1, "ret": t + 2,
                            "final": True})
        leftovers = sorted(p for p in util.snapshot(gitdir)
                           if p.endswith(".lock"))
        if leftovers and not plan.get("stale_lock"):
            res["violations"].append({
                "sig": "C08/lock-left-behind",
                "detail": f"{leftovers}"})
        viol = judge(sim, plan, history, M.st(model0))
        res["violations"].extend(viol)
        for k, v in sim.stats.items():
            if k.startswith("probe:"):
                res["stats"][k] = v
        res["history"] = history
        res["sample"]["history"] = [
            {k: v for k, v in h.items() if k != "exc"} for h in history[:12]]
        return res


def _expand(history):
    """Split multi-name reads into per-name reads within the same interval."""
    out = []
    for h in history:
        if h["op"]["kind"] == "dict" and not h.get("raised"):
            for n in (A, B, T):
                out.append({"actor": h["actor"],
                            "op": {"kind": "get", "name": n, "multi": True},
                            "res": h["res"].get(n, "KeyError"),
                            "inv": h["inv"], "ret": h["ret"]})
            # HEAD appears in as_dict when it resolves
            out.append({"actor": h["actor"],
                        "op": {"kind": "get", "name": H, "multi": True},
                        "res": h["res"].get(H, "KeyError"),
                        "inv": h["inv"], "ret": h["ret"]})
        elif h["op"]["kind"] == "dict":
            continue
        else:
            out.append(h)
    return out


def _overlap_kinds(ops, o):
    ks = set()
    for p in ops:
        if p is o or p["actor"] == o["actor"] or p.get("final"):
            continue
        if p["inv"] < o["ret"] and o["inv"] < p["ret"]:
            ks.add(p["op"]["kind"])
    return "+".join(sorted(ks)) or "none"


def judge(sim, plan, history, state0):
    ops = _expand(history)
    overl = any(_overlap_kinds(ops, o) != "none" for o in ops
                if not o.get("final"))
    if overl:
        sim.stat("probe:overlap")
    if any(o["op"]["kind"] == "pack" and
           set(_overlap_kinds(ops, o).split("+")) &
           {"cas", "rm", "add", "lcas"} for o in ops):
        sim.stat("probe:pack_during_update")
    ok, order = lin.linearizable(ops, state0, M.apply, M.accept)
    if ok:
        return []
    # culprits: smallest sets of ops whose removal makes the rest linearizable
    import itertools
    cands = []
    for size in (1, 2):
        for idxs in itertools.combinations(range(len(ops)), size):
            rest = [o for i, o in enumerate(ops) if i not in idxs]
            ok2, _ = lin.linearizable(rest, state0, M.apply, M.accept)
            if ok2:
                cands.append([ops[i] for i in idxs])
        if cands:
            break
    hist = [{kk: vv for kk, vv in o.items() if kk != "exc"} for o in ops]
    if not cands:
        sig = "C08/not-linearizable/multiple"
        mechs = {m for o in ops if not o.get("final")
                 for m in [_mechanism(sim, o, ops)] if m}
        if mechs:
            sig += "/related:" + "+".join(sorted(mechs))
        return [{"sig": sig,
                 "detail": json.dumps({"history": hist}, default=str)[:3000]}]

    def describe(o):
        k = o["op"]["kind"]
        res = o.get("res")
        if o.get("raised"):
            cls = "partial-effect-on-error"
        elif o.get("final"):
            cls = "final-state"
        elif k in ("cas", "add", "rm", "lcas"):
            cls = "spurious-cas-failure" if res is False else "lost-update"
        elif k in ("get", "raw", "has"):
            cls = "ref-vanished" if res in ("KeyError", None, False) else \
                "stale-read"
        else:
            cls = "odd"
        mech = _mechanism(sim, o, ops)
        if o.get("final"):
            n = o["op"]["name"]
            for p in ops:
                if p["op"]["kind"] == "rm" and p["op"].get("name") == n:
                    mech = mech or _mechanism(sim, p, ops)
            with_ = "+".join(sorted({p["op"]["kind"] for p in ops
                                     if not p.get("final") and
                                     (p["op"].get("name") in (n, H) or
                                      p["op"]["kind"] == "pack")}))
        else:
            with_ = _overlap_kinds(ops, o)
        prio = 0 if mech else (1 if cls in ("lost-update",
                                            "spurious-cas-failure",
                                            "partial-effect-on-error")
                               else 2 if not o.get("final") else 3)
        if mech:
            with_ += "/" + mech
        if o["op"].get("name") == H and k in ("cas", "add", "lcas"):
            k += "@HEAD"
        return prio, f"C08/{cls}/{k}/with:{with_}"

    best = None
    for cset in cands:
        ds = sorted(describe(o) for o in cset)
        key = (ds[0][0], len(cset))
        if best is None or key < best[0]:
            best = (key, ds, cset)
    _, ds, cset = best
    sig = ds[0][1]
    if len(ds) > 1 and ds[1][0] > 0:
        sig += "&" + ds[1][1][4:]
    if ds[0][0] != 0:
        # the blamed operation is only a witness: name a known interleaving
        # mechanism present elsewhere in the same history
        mechs = {m for o in ops if not o.get("final")
                 for m in [_mechanism(sim, o, ops)] if m}
        if mechs:
            sig += "/related:" + "+".join(sorted(mechs))
    return [{"sig": sig,
             "detail": json.dumps({"culprits": cset, "history": hist},
                                  default=str)[:3000]}]


def _mechanism(sim, culprit, ops):
    """Name the interleaving behind a violation from the event log, so that a
    recorded finding is keyed on the history that fails, not just on the
    kinds of operation involved."""
    ev = sim.events or []
    k = culprit["op"]["kind"]
    name = culprit["op"].get("name")
    me = culprit["actor"]
    if k == "rm" and culprit.get("res") is True and name:
        path = "repo/.git/" + name
        unl = [i for i, e in enumerate(ev)
               if e[1] == me and e[2] == "unlink" and e[3] == path]
        # the deleter's own looks at packed-refs
        looks = [i for i, e in enumerate(ev)
                 if e[1] == me and e[2] in ("stat", "open_r") and
                 e[3] == "repo/.git/packed-refs"]
        for p in {o["actor"] for o in ops if o["op"]["kind"] == "pack"}:
            lock_at = None
            for i, e in enumerate(ev):
                if e[1] != p:
                    continue
                if e[2] == "open_excl" and e[3] == "repo/.git/packed-refs.lock":
                    lock_at = i
                    seen_open = None
                elif lock_at is not None and e[2] == "open_r" and e[3] == path:
                    seen_open = i
                elif lock_at is not None and e[2] == "replace" and \
                        e[3] == "repo/.git/packed-refs.lock":
                    if seen_open is not None and any(
                            seen_open < u < i for u in unl):
                        return "unlinked-while-packer-holds-packed-refs-lock"
                    # same missing serialisation, other order: the deleter
                    # looked at packed-refs while the packer held its lock
                    # (the entry was not there yet), the packer then wrote
                    # the value it had read, the deleter unlinked the loose
                    # file: the packed value shows until the deleter's
                    # re-check removes it
                    if seen_open is not None and any(
                            lock_at < j < i and any(u > j and u > seen_open
                                                    for u in unl)
                            for j in looks):
                        return "packed-refs-examined-while-packer-holds-lock"
                    lock_at = None
        return None
    if k in ("get", "raw", "has") and name and name != H and \
            culprit.get("res") in ("KeyError", None, False):
        # the lock-free read looks at the loose file, then at packed-refs;
        # between the two looks another process created the loose file (over
        # the packed entry) and then dropped the packed entry (first half of
        # a delete): both looks miss a ref that existed throughout
        path = "repo/.git/" + name
        for i1, e in enumerate(ev):
            if not (e[1] == me and e[2] == "open_r" and e[3] == path):
                continue
            i2 = next((j for j in range(i1 + 1, len(ev))
                       if ev[j][1] == me and ev[j][2] == "open_r" and
                       ev[j][3] == "repo/.git/packed-refs"), None)
            if i2 is None:
                continue
            created = [j for j in range(i1 + 1, i2)
                       if ev[j][1] != me and ev[j][2] == "replace" and
                       ev[j][3] == path + ".lock"]
            dropped = [j for j in range(i1 + 1, i2)
                       if ev[j][1] != me and ev[j][2] == "replace" and
                       ev[j][3] == "repo/.git/packed-refs.lock"]
            if created and dropped and min(created) < max(dropped) and \
                    not any(ev[j][2] == "unlink" and ev[j][3] == path
                            for j in range(i1 + 1, i2)):
                return "loose-created-and-packed-entry-dropped-between-" \
                    "the-two-looks-of-a-read"
        return None
    if name == H and k in ("get", "has"):
        # a read through HEAD: HEAD followed, re-pointed by someone else, and
        # only then the (old) target read
        opens = [i for i, e in enumerate(ev)
                 if e[1] == me and e[2] == "open_r" and
                 e[3] == "repo/.git/HEAD"]
        for i, e in enumerate(ev):
            if e[1] != me and e[2] == "replace" and \
                    e[3] == "repo/.git/HEAD.lock":
                later = [j for j, f in enumerate(ev)
                         if f[1] == me and f[2] == "open_r" and j > i and
                         f[3].startswith("repo/.git/refs/")]
                if any(r < i for r in opens) and later:
                    return "head-retargeted-between-follow-and-lock"
        return None
    if name == H and k in ("cas", "add", "lcas"):
        # HEAD re-pointed between following it and locking the old target
        # the content a reader sees is bound when it opens the file
        reads = [i for i, e in enumerate(ev)
                 if e[1] == me and e[2] == "open_r" and
                 e[3] == "repo/.git/HEAD"]
        for i, e in enumerate(ev):
            if e[1] != me and e[2] == "replace" and \
                    e[3] == "repo/.git/HEAD.lock":
                locks = [j for j, f in enumerate(ev)
                         if f[1] == me and f[2] == "replace" and j > i]
                if any(r < i for r in reads) and locks:
                    return "head-retargeted-between-follow-and-lock"
    return None


def _finish(sim, plan, fs):
    seen = set()
    out = []
    for s, d in sim.violations:
        if s not in seen:
            seen.add(s)
            out.append({"sig": s, "detail": d})
    stats = dict(sim.stats)
    stats["sim_ns"] = sim.clock.advanced
    stats["steps"] = sim.steps
    if fs is not None:
        stats["fs_calls"] = fs.all_calls
        stats["mutating_calls"] = fs.mut_calls
    pol = (plan.get("sched") or {}).get("policy", "trace")
    stats["policy:" + pol] = 1
    stats["kind:" + plan["kind"]] = 1
    ih = util.h8([(e[1], e[2], e[3]) for e in sim.events])
    return {"violations": out, "digest": sim.digest(), "ihash": ih,
            "nontrivial": len(sim.trace_out) > len(sim.actors),
            "trace": sim.trace_out, "stats": stats, "events": sim.events,
            "sample": {"plan": plan, "events": len(sim.events),
                       "context_switches": len(sim.trace_out)}}


# ----------------------------------------------------------------- commits
def run_commit(plan):
    from dulwich.errors import CommitError
    from dulwich.file import FileLocked
    from dulwich.repo import MemoryRepo, Repo
    mem = plan["kind"] == "memcommit"
    sim = Sim(seed=plan["seed"], sched=plan["sched"], clock=plan.get("clock"),
              step_cap=60000)
    with util.Sandbox() as root:
        fs = simfs.FS(root, sim)
        simfs.activate(fs)
        rp = os.path.join(root, "repo")
        if mem:
            repo0 = MemoryRepo()
        else:
            repo0 = util.init_repo(rp)
        blob = util.mk_blob(b"hello\n")
        tree = util.mk_tree([(b"f", 0o100644, blob.id)])
        c0 = util.mk_commit(tree.id, [], b"root\n", 1700000000)
        for o in (blob, tree, c0):
            repo0.object_store.add_object(o)
        unborn = bool(plan.get("unborn"))
        if not unborn:
            repo0.refs[A.encode()] = c0.id
        else:
            repo0.refs[b"refs/heads/keep"] = c0.id
        repo0.refs.set_symbolic_ref(b"HEAD", A.encode())
        if plan.get("packed_initially") and not mem:
            repo0.refs.pack_refs(all=True)
        if not mem:
            repo0.close()
        results = []  # (actor, i, commit id or None, exc)
        reads = []
        if mem:
            _wrap_mem_refs(sim, repo0.refs)

        def committer(spec):
            def body(a):
                repo = repo0 if mem else Repo(rp)
                try:
                    for i in range(spec["n"]):
                        msg = b"%s-%d\n" % (spec["name"].encode(), i)
                        kw = dict(message=msg, committer=util.IDENT,
                                  author=util.IDENT,
                                  commit_timestamp=1700001000 + a.idx * 10 + i,
                                  commit_timezone=0, tree=tree.id,
                                  no_verify=True,
                                  ref=spec["ref"].encode())
                        inv = sim.stamp()
                        try:
                            if mem:
                                cid = repo.do_commit(**kw)
                            else:
                                cid = repo.get_worktree().commit(**kw)
                            results.append((spec["name"], i, cid, None, inv,
                                            sim.stamp()))
                        except (CommitError, FileLocked) as e:
                            sim.stat("probe:commit_conflict")
                            results.append((spec["name"], i, None,
                                            type(e).__name__, inv,
                                            sim.stamp()))
                        except Exception as e:  # noqa: BLE001
                            results.append((spec["name"], i, None,
                                            "odd:" + repr(e)[:200], inv,
                                            sim.stamp()))
                finally:
                    if not mem:
                        repo.close()
            return body

        def packer(spec):
            def body(a):
                repo = Repo(rp)
                try:
                    for _ in range(spec["n"]):
                        try:
                            repo.refs.pack_refs(all=True)
                        except FileLocked:
                            pass
                finally:
                    repo.close()
            return body

        def reader(spec):
            def body(a):
                repo = repo0 if mem else Repo(rp)
                try:
                    for _ in range(spec["n"]):
                        inv = sim.stamp()
                        try:
                            v = repo.refs[A.encode()]
                        except KeyError:
                            v = None
                        reads.append((v, inv, sim.stamp()))
                finally:
                    if not mem:
                        repo.close()
            return body

        for spec in plan["actors"]:
            fn = {"committer": committer, "packer": packer,
                  "reader": reader}[spec["role"]](spec)
            sim.actor(spec["name"], fn)
        sim.run()
        gc.collect()
        res = _finish(sim, plan, fs)
        simfs.deactivate()
        if sim.abort_reason:
            res["violations"].append({"sig": f"C08/{sim.abort_reason}",
                                      "detail": "run did not finish"})
            return res
        for a in sim.actors:
            if a.exc is not None:
                res["violations"].append({
                    "sig": f"C08/harness-actor-exception/{type(a.exc).__name__}",
                    "detail": repr(a.exc)})
        final = repo0 if mem else Repo(rp)
        try:
            try:
                tip = final.refs[A.encode()]
            except KeyError:
                tip = None
            anc = set()
            depth = {}
            todo = [(tip, 0)] if tip else []
            while todo:
                c, d = todo.pop()
                if c in anc:
                    continue
                anc.add(c)
                depth[c] = d
                try:
                    todo.extend((p, d + 1) for p in final[c].parents)
                except KeyError:
                    res["violations"].append({
                        "sig": "C08/branch-history-broken",
                        "detail": f"missing commit {c}"})
            roles = "+".join(sorted({s["role"] for s in plan["actors"]}))
            ok_commits = [r for r in results if r[2] is not None]
            if len(ok_commits) > 1:
                sim.stat("probe:multi_commit_success")
            for (nm, i, cid, err, inv, ret) in results:
                if cid is not None and cid not in anc:
                    res["violations"].append({
                        "sig": f"C08/lost-commit/{plan['kind']}/{roles}",
                        "detail": f"commit {nm}-{i} {cid.decode()} reported "
                        f"success but is not in the history of the final "
                        f"tip {tip.decode() if tip else None}; results="
                        f"{[(r[0], r[1], r[2].decode() if r[2] else r[3]) for r in results]}"})
                if err and err.startswith("odd:"):
                    res["violations"].append({
                        "sig": f"C08/commit-odd-exception/{plan['kind']}",
                        "detail": err})
            if (not unborn and (tip is None or c0.id not in anc)) or \
                    (unborn and ok_commits and tip is None):
                res["violations"].append({
                    "sig": f"C08/branch-lost/{plan['kind']}/{roles}",
                    "detail": f"tip={tip}"})
            # readers: every value is c0 or a successful commit, and never
            # goes backwards in history
            okset = {c0.id} | {r[2] for r in ok_commits}
            prev = None
            for (v, inv, ret) in reads:
                if v is None:
                    if unborn and prev is None:
                        continue  # not born yet
                    res["violations"].append({
                        "sig": f"C08/ref-vanished/get/{plan['kind']}/{roles}",
                        "detail": "reader saw the branch missing"})
                    continue
                if v not in okset and v not in anc:
                    res["violations"].append({
                        "sig": f"C08/torn-or-unknown-read/{plan['kind']}",
                        "detail": repr(v)})
                if prev is not None and v in depth and prev in depth and \
                        depth[v] > depth[prev]:
                    res["violations"].append({
                        "sig": f"C08/stale-read/get/{plan['kind']}/{roles}",
                        "detail": f"reader saw {prev} then older {v}"})
                prev = v
        finally:
            if not mem:
                final.close()
        res["sample"]["results"] = [
            (r[0], r[1], r[2].decode() if r[2] else r[3]) for r in results]
        for k, v in sim.stats.items():
            if k.startswith("probe:"):
                res["stats"][k] = v
        seen = set()
        res["violations"] = [v for v in res["violations"]
                             if not (v["sig"] in seen or seen.add(v["sig"]))]
        return res


def _wrap_mem_refs(sim, refs):
    """Each container method call is one scheduler step (atomic register)."""
    for nm in ("read_loose_ref", "set_if_equals", "add_if_new",
               "remove_if_equals", "set_symbolic_ref", "get_packed_refs"):
        orig = getattr(refs, nm)

        def wrapped(*a, _orig=orig, _nm=nm, **kw):
            if sim.current is not None:
                sim.yield_point("mem:" + _nm)
                sim.log(sim.current.name, "mem:" + _nm, "", None)
            return _orig(*a, **kw)
        setattr(refs, nm, wrapped)


def run_plan(plan):
    if plan["kind"] == "refops":
        return run_refops(plan)
    return run_commit(plan)


def shrink(plan):
    def cp():
        return json.loads(json.dumps(plan))
    if plan["kind"] == "refops":
        for i, a in enumerate(plan["actors"]):
            if a["ops"]:
                p = cp()
                p["actors"][i]["ops"] = []
                yield p
        for i, a in enumerate(plan["actors"]):
            for j in range(len(a["ops"]) - 1, -1, -1):
                if len(a["ops"]) > 1:
                    p = cp()
                    del p["actors"][i]["ops"][j]
                    yield p
        for n in list(plan["init"]):
            if n != H:
                p = cp()
                del p["init"][n]
                yield p
            if "packed" in plan["init"][n] and "loose" in plan["init"][n]:
                for k in ("packed", "loose"):
                    p = cp()
                    del p["init"][n][k]
                    yield p
        if plan.get("stale_lock"):
            p = cp()
            p["stale_lock"] = None
            yield p
        if plan.get("peeled"):
            p = cp()
            p["peeled"] = False
            yield p
    else:
        for i, a in enumerate(plan["actors"]):
            if a["n"] > 0:
                p = cp()
                p["actors"][i]["n"] = a["n"] - 1
                yield p
        if plan.get("packed_initially"):
            p = cp()
            p["packed_initially"] = False
            yield p
