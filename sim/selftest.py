"""Self-tests of the simulator itself.

selftest-determinism: every engine, many seeds, each executed twice in this
process, once more in forked workers at two worker counts, and once in a fresh
interpreter under another PYTHONHASHSEED (compared with itself); the event-log
digests must agree.
"""

from __future__ import annotations

import importlib
import json
import os
import subprocess
import sys

from . import runner

VERIF = os.path.dirname(os.path.dirname(os.path.abspath(__file__)))
ALL = ["c07", "c08", "c09", "c10", "c19", "c05", "c06", "c04", "c16", "c14",
       "c17", "c18"]


def _mods():
    out = []
    for m in ALL:
        try:
            out.append(importlib.import_module(f"sim.props.{m}"))
        except ModuleNotFoundError:
            pass
    return out


def digests(mod, tier, base, idxs):
    out = {}
    for i in idxs:
        seed = runner.seed_for(base, i)
        plan = mod.gen_plan(seed, tier)
        res = mod.run_plan(plan)
        out[str(i)] = [res.get("digest"), res.get("ihash"),
                       sorted(runner.sigs_of(res))]
    return out


def _forked(mod, tier, base, idxs, nw):
    """Same seeds in forked workers (different pids -> sandbox paths)."""
    pipes = []
    for w in range(nw):
        r, wr = os.pipe()
        pid = os.fork()
        if pid == 0:
            os.close(r)
            try:
                from . import util as _util
                _util.enter_private_scratch()
                d = digests(mod, tier, base, idxs[w::nw])
                os.write(wr, json.dumps(d).encode())
            finally:
                os._exit(0)
        os.close(wr)
        pipes.append((pid, r))
    out = {}
    for pid, r in pipes:
        buf = b""
        while True:
            b = os.read(r, 1 << 16)
            if not b:
                break
            buf += b
        os.close(r)
        os.waitpid(pid, 0)
        out.update(json.loads(buf or b"{}"))
    return out


def determinism(args):
    n = args.runs or 60
    bad = 0
    tier = args.tier
    total_bad = 0
    for mod in _mods():
        total_bad += bad
        bad = 0
        idxs = list(range(n))
        a = digests(mod, tier, args.seed, idxs)
        b = digests(mod, tier, args.seed, list(reversed(idxs)))
        c = _forked(mod, tier, args.seed, idxs, 3)
        d = _forked(mod, tier, args.seed, idxs, 16)
        for nm, other in (("same-process-reversed", b), ("3 workers", c),
                          ("16 workers", d)):
            diff = [i for i in a if a[i] != other.get(i)]
            if diff:
                bad += 1
                print(f"NONDETERMINISM {mod.PROP_ID} vs {nm}: run indexes "
                      f"{diff[:10]}")
        # fresh interpreter, other hash seed: compare that interpreter with
        # itself (two executions), and report whether it equals hash seed 0
        env = dict(os.environ)
        env["VERIF_HASHSEED"] = "12345"
        env.pop("PYTHONHASHSEED", None)
        env.pop("DULWICH_VERIF_SIM", None)
        outs = []
        for _ in range(2):
            p = subprocess.run(
                [sys.executable, "-B", os.path.join(VERIF, "bin", "check"),
                 "selftest-digests", "--runs", str(min(n, 30)), "--tier",
                 tier, "--seed", str(args.seed), "--expect", mod.PROP_ID],
                capture_output=True, text=True, env=env, timeout=1800)
            outs.append(p.stdout)
        if outs[0] != outs[1] or not outs[0].strip():
            bad += 1
            print(f"NONDETERMINISM {mod.PROP_ID} under PYTHONHASHSEED=12345 "
                  f"(fresh interpreters disagree or failed)")
        print(f"determinism {mod.PROP_ID}: {n} seeds x 4 configurations + "
              f"fresh interpreter: {'ok' if not bad else 'FAILED'}")
    if bad + total_bad:
        print("HARNESS-ERROR determinism self-test failed")
        return 3
    return 0


def main(target, args):
    if target == "selftest-import":
        import dulwich
        print(f"ok: dulwich {dulwich.__version__} from {dulwich.__file__}; "
              f"{len(_mods())} property modules importable")
        return 0
    if target == "selftest-determinism":
        return determinism(args)
    if target == "selftest-digests":
        mod = importlib.import_module(f"sim.props.{args.expect.lower()}")
        d = digests(mod, args.tier, args.seed, list(range(args.runs or 30)))
        print(json.dumps(d, sort_keys=True))
        return 0
    if target == "selftest-transparency":
        from . import transparency
        return transparency.main(args)
    print(f"unknown self-test {target}")
    return 3
