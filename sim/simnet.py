"""simnet: in-memory byte streams whose fragmentation, delay and death are
decided by the simulator.

Two layers:
  ChunkedStream -- a raw stream replayed to a single reader in PRNG- or
                   plan-chosen chunks with EOF/reset at a chosen offset
                   (no scheduler needed: the partition *is* the schedule).
  Conn/Endpoint -- a full duplex connection between two actors driven by the
                   kernel scheduler (a virtual "network" actor moves bytes
                   from in-flight to deliverable).
"""

from __future__ import annotations

import io


class StreamSpin(Exception):
    """A decoder kept reading an exhausted stream."""


class ChunkedStream(io.RawIOBase):
    """Raw stream delivering ``data`` in the given chunk sizes.

    cuts: list of chunk lengths (cycled; missing -> everything available).
    end:  "eof" | "reset" -- what happens after the last byte.
    """

    def __init__(self, data, cuts=None, end="eof", spin_limit=64):
        super().__init__()
        self.data = bytes(data)
        self.pos = 0
        self.cuts = list(cuts or [])
        self.ci = 0
        self.end = end
        self.reads = 0
        self.reads_after_end = 0
        self.spin_limit = spin_limit
        self.max_request = 0

    def readable(self):
        return True

    def _next(self, n):
        self.reads += 1
        if n is not None and n >= 0:
            self.max_request = max(self.max_request, n)
        if self.pos >= len(self.data):
            self.reads_after_end += 1
            if self.reads_after_end > self.spin_limit:
                raise StreamSpin(f"{self.reads_after_end} reads after the "
                                 f"end of the stream")
            if self.end == "reset":
                raise ConnectionResetError("simulated reset")
            return b""
        avail = len(self.data) - self.pos
        k = avail
        if self.ci < len(self.cuts):
            k = max(1, min(avail, self.cuts[self.ci]))
            self.ci += 1
        if n is not None and n >= 0:
            k = min(k, n)
        if k <= 0:
            return b""
        out = self.data[self.pos:self.pos + k]
        self.pos += k
        return out

    # socket-like
    def recv(self, n):
        return self._next(n)

    # RawIOBase
    def readinto(self, b):
        chunk = self._next(len(b))
        b[:len(chunk)] = chunk
        return len(chunk)

    def read(self, n=-1):
        return self._next(n)


def buffered_read(stream):
    """What socket.makefile('rb') gives a Protocol: read(n) blocks until n
    bytes or EOF."""
    return io.BufferedReader(stream, buffer_size=8192).read


class Pipe:
    """One direction of a connection."""

    def __init__(self, name, cap=None):
        self.name = name
        self.inflight = bytearray()
        self.ready = bytearray()
        self.cap = cap
        self.closed_w = False
        self.broken = None  # None | "reset" | "eof"
        self.delivered = 0
        self.sent = 0
        self.kill_at = None  # (offset, kind)
        self.stall = 0

    def space(self):
        if self.cap is None:
            return True
        return len(self.inflight) + len(self.ready) < self.cap


class Endpoint:
    def __init__(self, sim, rx, tx, name):
        self.sim = sim
        self.rx = rx
        self.tx = tx
        self.name = name
        self.closed = False

    # -- receiving
    def _readable(self):
        return bool(self.rx.ready) or self.rx.broken is not None or \
            (self.rx.closed_w and not self.rx.inflight)

    def recv(self, n):
        sim = self.sim
        if not self._readable():
            sim.block_until(self._readable, "net_recv")
        else:
            sim.yield_point("net_recv")
        rx = self.rx
        if rx.ready:
            k = min(n, len(rx.ready))
            out = bytes(rx.ready[:k])
            del rx.ready[:k]
            sim.log(sim.current.name if sim.current else "?", "recv",
                    rx.name, k)
            return out
        if rx.broken == "reset":
            sim.stat("fault:net-reset-seen")
            raise ConnectionResetError("simulated connection reset")
        return b""

    def can_read(self):
        self.sim.yield_point("net_poll")
        return bool(self.rx.ready) or self.rx.broken is not None or \
            (self.rx.closed_w and not self.rx.inflight)

    # -- sending
    def sendall(self, data):
        sim = self.sim
        tx = self.tx
        data = bytes(data)
        off = 0
        while off < len(data):
            if tx.broken is not None or self.closed:
                raise BrokenPipeError("simulated broken pipe")
            if not tx.space():
                sim.block_until(lambda: tx.space() or tx.broken is not None,
                                "net_send")
                continue
            room = len(data) - off if tx.cap is None else \
                max(1, tx.cap - len(tx.inflight) - len(tx.ready))
            chunk = data[off:off + room]
            tx.inflight += chunk
            tx.sent += len(chunk)
            off += len(chunk)
            sim.log(sim.current.name if sim.current else "?", "send",
                    tx.name, len(chunk))
            sim.yield_point("net_send")
        return None

    write = sendall

    def close_write(self):
        self.tx.closed_w = True

    def close(self):
        self.closed = True
        self.tx.closed_w = True


class Conn:
    """Full duplex connection; register ``net`` with the scheduler."""

    def __init__(self, sim, name="c", cap=None, rng=None, faults=None,
                 chunk_max=None, p_hold=0.0):
        self.sim = sim
        self.a2b = Pipe(name + ":a>b", cap)
        self.b2a = Pipe(name + ":b>a", cap)
        self.a = Endpoint(sim, self.b2a, self.a2b, name + ".a")
        self.b = Endpoint(sim, self.a2b, self.b2a, name + ".b")
        self.rng = rng or sim.rng("net")
        self.chunk_max = chunk_max
        self.p_hold = p_hold
        for f in faults or []:
            p = self.a2b if f["dir"] == "a2b" else self.b2a
            p.kill_at = (int(f["at"]), f["kind"])
        self.actor = sim.virtual(name + ".net", self._runnable, self._step)

    def _pipes(self):
        return [p for p in (self.a2b, self.b2a)
                if p.inflight and p.broken is None]

    def _runnable(self):
        return bool(self._pipes())

    def _step(self):
        ps = self._pipes()
        if not ps:
            return
        p = ps[self.rng.randrange(len(ps))] if len(ps) > 1 else ps[0]
        n = len(p.inflight)
        hi = n if self.chunk_max is None else min(n, self.chunk_max)
        k = self.rng.randint(1, hi)
        if p.kill_at is not None and p.delivered + k >= p.kill_at[0]:
            k = max(0, p.kill_at[0] - p.delivered)
            p.ready += p.inflight[:k]
            p.delivered += k
            p.inflight.clear()
            p.broken = p.kill_at[1]
            self.sim.stat("fault:net-" + p.kill_at[1])
            self.sim.log("net", "kill", p.name, p.delivered)
            # a reset tears down both directions
            if p.kill_at[1] == "reset":
                other = self.b2a if p is self.a2b else self.a2b
                other.inflight.clear()
                other.broken = "reset"
            return
        p.ready += p.inflight[:k]
        del p.inflight[:k]
        p.delivered += k
        self.sim.log("net", "deliver", p.name, k)
