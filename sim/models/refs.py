"""Sequential reference model of a ref container (the documented
``RefsContainer`` contract), independent of dulwich's implementation.

State: frozenset of (name, value); value is a 40-hex str or "ref: <target>".
"""

from __future__ import annotations

ZERO = "0" * 40
SYM = "ref: "


def st(d):
    return frozenset(d.items())


def follow(d, name):
    """-> (last name in the chain, sha or None); ('loop', None) on a loop."""
    depth = 0
    cur = name
    while True:
        v = d.get(cur)
        if v is None:
            return cur, None
        if not v.startswith(SYM):
            return cur, v
        cur = v[len(SYM):]
        depth += 1
        if depth > 5:
            return "loop", None


def apply(state, o):
    """-> list of (new_state, result)."""
    op = o["op"]
    k = op["kind"]
    d = dict(state)
    if o.get("raised"):
        return [(state, "raised")]
    if k == "cas":
        real, cur = follow(d, op["name"])
        if real == "loop":
            real, cur = op["name"], None
        old = op["old"]
        if old is not None:
            if (cur or ZERO) != old:
                return [(state, False)]
        d[real] = op["new"]
        return [(st(d), True)]
    if k == "add":
        real, cur = follow(d, op["name"])
        if cur is not None:
            return [(state, False)]
        d[real] = op["new"]
        return [(st(d), True)]
    if k == "rm":
        name = op["name"]
        old = op["old"]
        cur = d.get(name)
        if old is not None:
            if (cur or ZERO) != old:
                return [(state, False)]
        d.pop(name, None)
        return [(st(d), True)]
    if k == "lcas":
        # CAS written with locked_ref: ensure_equals(old) then set(new);
        # old None means "must not exist"
        real, cur = follow(d, op["name"])
        if cur != op["old"]:
            return [(state, False)]
        d[real] = op["new"]
        return [(st(d), True)]
    if k == "symref":
        d[op["name"]] = SYM + op["target"]
        return [(st(d), None)]
    if k == "pack":
        return [(state, None)]
    if k == "get":
        real, cur = follow(d, op["name"])
        return [(state, cur if cur is not None else "KeyError")]
    if k == "raw":
        return [(state, d.get(op["name"]))]
    if k == "has":
        # ``name in refs`` is "the ref file exists" (symrefs are not followed)
        return [(state, d.get(op["name"]) is not None)]
    raise ValueError(k)


def accept(o, mres):
    if o.get("raised"):
        return True
    return o["res"] == mres
