"""Brute-force linearizability checker for short histories.

An operation is a dict with integer stamps ``inv`` < ``ret`` (global event
sequence numbers), an ``op`` description and an observed ``res``.  The model is
``apply(state, op) -> list of (new_state, result)`` (a list so that a model can
leave a point unspecified); states must be hashable.  An operation whose
observed result is ``("raised", ...)`` may only take effect as a no-op.
"""

from __future__ import annotations


def linearizable(ops, init_state, apply, accept):
    """Return (True, order) or (False, best_prefix).

    accept(op, model_result) -> bool decides whether the observed result is
    compatible with what the model returns at that point.
    """
    n = len(ops)
    if n == 0:
        return True, []
    order = []
    seen = set()
    best = []

    def rec(done_mask, state):
        nonlocal best
        if done_mask == (1 << n) - 1:
            return True
        key = (done_mask, state)
        if key in seen:
            return False
        seen.add(key)
        # minimal return stamp among the not yet linearized operations
        min_ret = min(ops[i]["ret"] for i in range(n)
                      if not done_mask & (1 << i))
        for i in range(n):
            if done_mask & (1 << i):
                continue
            o = ops[i]
            if o["inv"] > min_ret:
                continue  # some pending op returned before this one started
            for new_state, mres in apply(state, o):
                if not accept(o, mres):
                    continue
                order.append(i)
                if len(order) > len(best):
                    best = list(order)
                if rec(done_mask | (1 << i), new_state):
                    return True
                order.pop()
        return False

    ok = rec(0, init_state)
    return ok, (list(order) if ok else best)
