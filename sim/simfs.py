"""simfs: interposition layer between dulwich and a real scratch directory.

Installed once per process (before dulwich is imported).  All wrappers are
pass-through unless a sandbox (``FS``) is active *and* the path lies inside
it.  Inside the sandbox every call is logged, is a pre-emption point, may be
failed by the fault plan, updates virtual metadata (inode numbers, timestamps
from the virtual clock) and the durability journal, and fires listeners.
"""

from __future__ import annotations

import builtins
import errno as _errno
import io
import os
import random as _random
import stat as _stat
import tempfile
import time as _time
import shutil

from .kernel import SimAbort  # noqa: F401


class _Real:
    pass


R = _Real()
_INSTALLED = False
STATE = None  # the active FS, or None


ERRNOS = {
    "EIO": _errno.EIO,
    "ENOSPC": _errno.ENOSPC,
    "EDQUOT": _errno.EDQUOT,
    "EPERM": _errno.EPERM,
    "EACCES": _errno.EACCES,
    "EMFILE": _errno.EMFILE,
    "EROFS": _errno.EROFS,
}


class InjectedOSError(OSError):
    """OSError raised by the fault plan (so oracles can recognise it)."""


class InjectedInterrupt(KeyboardInterrupt):
    pass


def make_fault(kind, call, path):
    if kind == "KBI":
        return InjectedInterrupt(f"injected at {call} {path}")
    if kind == "PARTIAL":
        return InjectedOSError(_errno.ENOSPC, "injected partial write", path)
    return InjectedOSError(ERRNOS[kind], f"injected {kind}", path)


def is_injected(exc):
    seen = set()
    while exc is not None and id(exc) not in seen:
        seen.add(id(exc))
        if isinstance(exc, (InjectedOSError, InjectedInterrupt)):
            return True
        exc = exc.__cause__ or exc.__context__
    return False


class FS:
    """State of one sandbox."""

    def __init__(self, root, sim=None, knobs=None):
        self.root = R.realpath(root)
        self.rootb = os.fsencode(self.root)
        self.rootp = self.root + "/"
        self.rootpb = self.rootb + b"/"
        self.sim = sim
        self.knobs = knobs or {}
        self.meta = {}  # (dev, ino) -> [vino, atime, mtime, ctime]
        self.next_ino = 100
        self.fds = {}  # fd -> (relpath, key)
        self.durable = None  # journal: key -> bytes at last fsync (or initial)
        self.journal = False
        self.boundary_hook = None  # fn(fs, call, relpath) before mutating calls
        self.mut_calls = 0
        self.all_calls = 0
        self.call_counts = {}
        self.write_buffering = self.knobs.get("buffering", -1)
        # jail: a mutating call by a simulated actor whose target lies (or
        # resolves through symlinks) outside the sandbox is recorded and
        # refused with EACCES, so code under test can never modify the host
        self.jail = bool(self.knobs.get("jail", False))
        self.escapes = []
        self.escape_hook = None
        self.listdir_rng = None
        self.tmp_rng = _random.Random(0)
        if sim is not None:
            self.listdir_rng = sim.rng("listdir") if self.knobs.get(
                "shuffle_listdir", True) else None
            self.tmp_rng = sim.rng("tmpnames")

    # ---------------------------------------------------------------- paths
    def rel(self, path):
        """Sandbox-relative str path, or None when outside the sandbox."""
        if isinstance(path, int):
            ent = self.fds.get(path)
            return ent[0] if ent else None
        try:
            p = os.fspath(path)
        except TypeError:
            return None
        if isinstance(p, bytes):
            if p.startswith(self.rootpb):
                return os.fsdecode(p[len(self.rootpb):])
            if p == self.rootb:
                return ""
            return None
        if p.startswith(self.rootp):
            return p[len(self.rootp):]
        if p == self.root:
            return ""
        return None

    def resolve_target(self, call, rel):
        """Where a mutating call on sandbox path ``rel`` really lands."""
        ab = os.path.join(self.root, rel) if rel else self.root
        if call in FOLLOWING_CALLS:
            try:
                return R.realpath(ab)
            except OSError:
                pass
        parent = R.realpath(os.path.dirname(ab))
        return os.path.join(parent, os.path.basename(ab))

    def in_sandbox(self, p):
        return p == self.root or p.startswith(self.rootp)

    def deny_escape(self, call, path):
        sim = self.sim
        self.escapes.append((call, os.fsdecode(os.fspath(path))))
        if sim is not None and sim.current is not None:
            sim.log(sim.current.name, "ESCAPE-DENIED", None, call)
        if self.escape_hook is not None:
            self.escape_hook(call, os.fsdecode(os.fspath(path)))
        raise PermissionError(_errno.EACCES,
                              "simulated host: outside the sandbox",
                              os.fsdecode(os.fspath(path)))

    def jail_check(self, call, rel):
        if not self.jail or rel is None:
            return
        sim = self.sim
        if sim is None or sim.current is None or sim.aborting:
            return
        tgt = self.resolve_target(call, rel)
        if not self.in_sandbox(tgt):
            self.deny_escape(call, tgt)

    # ---------------------------------------------------------------- clock
    def now(self):
        if self.sim is not None:
            return self.sim.clock.stamp()
        return 1767225600 * 10**9

    # ------------------------------------------------------------- metadata
    def _key(self, st):
        return (st.st_dev, st.st_ino)

    def meta_for(self, st, create=False):
        k = (st.st_dev, st.st_ino)
        m = self.meta.get(k)
        if m is None:
            t = self.now()
            m = self.meta[k] = [self.next_ino, t, t, t]
            self.next_ino += 1
        return m

    def touch_path(self, path, mtime=True, ctime=True, follow=False):
        try:
            st = R.stat(path) if follow else R.lstat(path)
        except OSError:
            return
        m = self.meta_for(st)
        t = self.now()
        if mtime:
            m[2] = t
        if ctime:
            m[3] = t

    def touch_parent(self, path):
        p = os.fspath(path)
        d = os.path.dirname(p)
        if d:
            self.touch_path(d, follow=True)

    def touch_fd(self, fd):
        try:
            st = R.fstat(fd)
        except OSError:
            return
        m = self.meta_for(st)
        t = self.now()
        m[2] = t
        m[3] = t

    def forget_if_gone(self, st):
        if st.st_nlink <= 1 and not _stat.S_ISDIR(st.st_mode):
            # last link removed: drop the mapping unless an fd still refers
            k = (st.st_dev, st.st_ino)
            for ent in self.fds.values():
                if ent[1] == k:
                    return
            self.meta.pop(k, None)
            if self.durable is not None:
                self.durable.pop(k, None)

    def vstat(self, st):
        m = self.meta_for(st)
        a, mt, c = m[1], m[2], m[3]
        return os.stat_result(
            (st.st_mode, m[0], 1, st.st_nlink, 1000, 1000, st.st_size,
             a // 10**9, mt // 10**9, c // 10**9,
             a / 1e9, mt / 1e9, c / 1e9, a, mt, c,
             4096, (st.st_size + 511) // 512, 0))

    # -------------------------------------------------------------- events
    def pre(self, call, rel, mut=False, y=True):
        """Log, yield, maybe inject.  Returns fault kind for PARTIAL else None."""
        sim = self.sim
        self.all_calls += 1
        if sim is None:
            return None
        a = sim.current
        if a is None or sim.aborting:
            return None
        cc = self.call_counts
        cc[call] = cc.get(call, 0) + 1
        if y:
            sim.yield_point(call)
        else:
            sim.clock.tick()
        sim.log(a.name, call, rel)
        if not mut and sim.rfaults and call in READ_FAULT_CALLS:
            n = getattr(a, "rcount", 0)
            a.rcount = n + 1
            kind = sim.rfaults.get((a.name, n))
            if kind is not None and sim.fault_filter is not None and \
                    not sim.fault_filter(call, rel):
                kind = None
            if kind is not None:
                sim.fired.append((a.name, n, kind, call, rel))
                sim.log(a.name, "FAULT", rel, kind)
                raise make_fault(kind, call, rel)
        if mut:
            self.mut_calls += 1
            n = a.mcount
            a.mcount = n + 1
            if self.boundary_hook is not None:
                self.boundary_hook(self, call, rel, n)
            for fn in sim.pre_listeners:
                fn(sim, a, call, rel)
            if self.jail and call in PATH_MUT_CALLS:
                self.jail_check(call, rel)
            kind = sim.faults.get((a.name, n))
            if kind is not None and sim.fault_filter is not None and \
                    not sim.fault_filter(call, rel):
                kind = None
            if kind is not None:
                sim.fired.append((a.name, n, kind, call, rel))
                sim.log(a.name, "FAULT", rel, kind)
                if kind == "PARTIAL" and call in ("kwrite",):
                    return kind
                raise make_fault(kind, call, rel)
        return None

    def post(self, call, rel, info=None):
        sim = self.sim
        if sim is None or sim.current is None or sim.aborting:
            return
        for fn in sim.listeners:
            fn(sim, sim.current, call, rel, info)

    # ------------------------------------------------------------- journal
    def start_journal(self):
        """Everything on disk now is considered durable."""
        self.journal = True
        self.durable = {}
        for dp, dns, fns in real_walk(self.root):
            for fn in fns:
                p = os.path.join(dp, fn)
                try:
                    st = R.lstat(p)
                    if _stat.S_ISREG(st.st_mode):
                        with R.open(p, "rb") as f:
                            self.durable[(st.st_dev, st.st_ino)] = f.read()
                except OSError:
                    pass

    def note_fsync(self, fd):
        if not self.journal:
            return
        try:
            st = R.fstat(fd)
            pos = R.lseek(fd, 0, os.SEEK_CUR)
            R.lseek(fd, 0, os.SEEK_SET)
            chunks = []
            while True:
                b = R.read(fd, 1 << 20)
                if not b:
                    break
                chunks.append(b)
            R.lseek(fd, pos, os.SEEK_SET)
            self.durable[(st.st_dev, st.st_ino)] = b"".join(chunks)
        except OSError:
            # write-only descriptor: read via /proc
            try:
                with R.open(f"/proc/self/fd/{fd}", "rb") as f:
                    self.durable[(st.st_dev, st.st_ino)] = f.read()
            except OSError:
                pass


# ----------------------------------------------------------------- proxies
class WProxy:
    """Write-only binary file with simulator-owned buffering over a raw fd."""

    def __init__(self, fs, fd, rel, mode, bufsize, name):
        self._fs = fs
        self._fd = fd
        self._rel = rel
        self.mode = mode
        self.name = name
        self._buf = bytearray()
        self._bufsize = bufsize
        self._closed = False
        self._pos = None

    # --- introspection
    @property
    def closed(self):
        return self._closed

    def fileno(self):
        self._chk()
        return self._fd

    def readable(self):
        return False

    def writable(self):
        return True

    def seekable(self):
        return True

    def isatty(self):
        return False

    def _chk(self):
        if self._closed:
            raise ValueError("I/O operation on closed file.")

    # --- writing
    def write(self, data):
        self._chk()
        if not isinstance(data, (bytes, bytearray)):
            data = bytes(data)
        self._buf += data
        if len(self._buf) > self._bufsize:
            self._kflush()
        return len(data)

    def writelines(self, lines):
        for ln in lines:
            self.write(ln)

    def _kflush(self):
        if not self._buf:
            return
        fs = self._fs
        data = bytes(self._buf)
        kind = fs.pre("kwrite", self._rel, mut=True)
        if kind == "PARTIAL":
            cut = len(data) // 2
            if cut:
                R.write(self._fd, data[:cut])
                del self._buf[:cut]
                fs.touch_fd(self._fd)
            raise make_fault("PARTIAL", "kwrite", self._rel)
        off = 0
        while off < len(data):
            off += R.write(self._fd, data[off:])
        self._buf.clear()
        fs.touch_fd(self._fd)
        fs.post("kwrite", self._rel, len(data))

    def flush(self):
        self._chk()
        self._kflush()

    def tell(self):
        self._chk()
        return R.lseek(self._fd, 0, os.SEEK_CUR) + len(self._buf)

    def seek(self, off, whence=0):
        self._chk()
        self._kflush()
        return R.lseek(self._fd, off, whence)

    def truncate(self, size=None):
        self._chk()
        self._kflush()
        if size is None:
            size = R.lseek(self._fd, 0, os.SEEK_CUR)
        self._fs.pre("ftruncate", self._rel, mut=True)
        R.ftruncate(self._fd, size)
        self._fs.touch_fd(self._fd)
        return size

    def close(self):
        if self._closed:
            return
        try:
            self._kflush()
        finally:
            self._closed = True
            self._buf.clear()
            fd = self._fd
            self._fs.fds.pop(fd, None)
            try:
                R.close(fd)
            except OSError:
                pass

    def __enter__(self):
        self._chk()
        return self

    def __exit__(self, *a):
        self.close()

    def __del__(self):
        if not self._closed:
            # a dying process never flushes; a collected Python file does.
            # Mirror CPython: flush and close, silently.
            try:
                self.close()
            except BaseException:  # noqa: BLE001
                pass

    def __iter__(self):
        raise io.UnsupportedOperation("not readable")

    def read(self, *a):
        raise io.UnsupportedOperation("not readable")


class FProxy:
    """Thin proxy around a real file object opened inside the sandbox."""

    def __init__(self, fs, f, rel, writable):
        self.__dict__["_f"] = f
        self.__dict__["_fs"] = fs
        self.__dict__["_rel"] = rel
        self.__dict__["_w"] = writable

    def __getattr__(self, name):
        return getattr(self._f, name)

    def __setattr__(self, name, value):
        setattr(self._f, name, value)

    def __enter__(self):
        self._f.__enter__()
        return self

    def __exit__(self, *a):
        self.close()

    def __iter__(self):
        return iter(self._f)

    def __next__(self):
        return next(self._f)

    def read(self, *a):
        self._fs.pre("read", self._rel)
        return self._f.read(*a)

    def read1(self, *a):
        self._fs.pre("read", self._rel)
        return self._f.read1(*a)

    def readinto(self, b):
        self._fs.pre("read", self._rel)
        return self._f.readinto(b)

    def readline(self, *a):
        return self._f.readline(*a)

    def readlines(self, *a):
        self._fs.pre("read", self._rel)
        return self._f.readlines(*a)

    def write(self, data):
        self._fs.pre("write", self._rel, mut=True)
        r = self._f.write(data)
        self._touch()
        return r

    def writelines(self, lines):
        self._fs.pre("write", self._rel, mut=True)
        r = self._f.writelines(lines)
        self._touch()
        return r

    def _touch(self):
        try:
            self._fs.touch_fd(self._f.fileno())
        except (OSError, ValueError):
            pass

    def flush(self):
        if self._w:
            self._fs.pre("flush", self._rel, mut=True, y=False)
        r = self._f.flush()
        if self._w:
            self._touch()
        return r

    def truncate(self, *a):
        self._fs.pre("ftruncate", self._rel, mut=True)
        r = self._f.truncate(*a)
        self._touch()
        return r

    def close(self):
        f = self._f
        if f.closed:
            return
        try:
            fd = f.fileno()
        except (OSError, ValueError):
            fd = None
        if self._w:
            self._fs.pre("close_w", self._rel, mut=True, y=False)
            try:
                f.flush()
                self._touch()
            except (OSError, ValueError):
                pass
        try:
            f.close()
        finally:
            if fd is not None:
                self._fs.fds.pop(fd, None)

    @property
    def closed(self):
        return self._f.closed

    def fileno(self):
        return self._f.fileno()


class VDirEntry:
    __slots__ = ("_e", "_fs", "name", "path")

    def __init__(self, fs, e):
        self._e = e
        self._fs = fs
        self.name = e.name
        self.path = e.path

    def is_dir(self, *, follow_symlinks=True):
        return self._e.is_dir(follow_symlinks=follow_symlinks)

    def is_file(self, *, follow_symlinks=True):
        return self._e.is_file(follow_symlinks=follow_symlinks)

    def is_symlink(self):
        return self._e.is_symlink()

    def is_junction(self):
        return False

    def stat(self, *, follow_symlinks=True):
        st = R.stat(self._e.path) if follow_symlinks else R.lstat(self._e.path)
        return self._fs.vstat(st)

    def inode(self):
        return self._fs.vstat(R.lstat(self._e.path)).st_ino

    def __fspath__(self):
        return self.path

    def __repr__(self):
        return f"<VDirEntry {self.name!r}>"


class VScandir:
    def __init__(self, entries):
        self._it = iter(entries)

    def __iter__(self):
        return self

    def __next__(self):
        return next(self._it)

    def __enter__(self):
        return self

    def __exit__(self, *a):
        self.close()

    def close(self):
        self._it = iter(())


# ---------------------------------------------------------------- wrappers
# non-mutating calls a read-side fault may hit (a failing disk, EMFILE)
READ_FAULT_CALLS = frozenset(["open_r", "read", "listdir", "scandir"])

# calls that follow a symlink in the last path component
FOLLOWING_CALLS = frozenset(["open_w", "chmod", "utime", "truncate"])
PATH_MUT_CALLS = frozenset(["open_w", "open_excl", "mkdir", "rmdir", "unlink",
                            "rename", "replace", "link", "symlink", "chmod",
                            "utime", "truncate"])


def _fs_for(path, mutcall=None):
    fs = STATE
    if fs is None:
        return None, None
    rel = fs.rel(path)
    if rel is None:
        if mutcall is not None and fs.jail and not isinstance(path, int) \
                and fs.sim is not None and fs.sim.current is not None \
                and not fs.sim.aborting:
            try:
                ap = os.path.abspath(os.fspath(path))
            except TypeError:
                return None, None
            fs.deny_escape(mutcall, ap)
        return None, None
    return fs, rel


def _ordered(fs, names, key=None):
    names = sorted(names, key=key)
    rng = fs.listdir_rng
    if rng is not None and len(names) > 1 and fs.sim is not None and \
            fs.sim.current is not None:
        rng.shuffle(names)
    return names


def w_open(path, flags, mode=0o777, *, dir_fd=None):
    fs, rel = _fs_for(path, "open_w" if dir_fd is None and (
        flags & (os.O_CREAT | os.O_TRUNC) or
        flags & os.O_ACCMODE != os.O_RDONLY) else None)
    if fs is None or dir_fd is not None:
        if dir_fd is not None:
            return R.os_open(path, flags, mode, dir_fd=dir_fd)
        return R.os_open(path, flags, mode)
    acc = flags & os.O_ACCMODE
    creating = bool(flags & (os.O_CREAT | os.O_TRUNC))
    if flags & os.O_EXCL:
        call = "open_excl"
    elif creating or acc != os.O_RDONLY:
        call = "open_w"
    else:
        call = "open_r"
    existed = True
    if creating:
        existed = R.lexists(path)
    fs.pre(call, rel, mut=(call != "open_r"))
    fd = R.os_open(path, flags, mode)
    st = R.fstat(fd)
    fs.meta_for(st)
    fs.fds[fd] = (rel, (st.st_dev, st.st_ino))
    if creating and not existed:
        fs.touch_parent(path)
    if (flags & os.O_TRUNC) and existed:
        fs.touch_fd(fd)
    fs.post(call, rel, (fd, (st.st_dev, st.st_ino), not existed))
    return fd


def w_close(fd):
    fs = STATE
    if fs is not None:
        fs.fds.pop(fd, None)
    return R.close(fd)


def w_read(fd, n):
    fs = STATE
    if fs is not None and fd in fs.fds:
        fs.pre("read", fs.fds[fd][0])
    return R.read(fd, n)


def w_write(fd, data):
    fs = STATE
    if fs is not None and fd in fs.fds:
        rel = fs.fds[fd][0]
        fs.pre("kwrite", rel, mut=True)
        n = R.write(fd, data)
        fs.touch_fd(fd)
        fs.post("kwrite", rel, n)
        return n
    return R.write(fd, data)


def w_fsync(fd):
    fs = STATE
    if hasattr(fd, "fileno"):
        fd = fd.fileno()
    if fs is not None and fd in fs.fds:
        rel = fs.fds[fd][0]
        fs.pre("fsync", rel, mut=True, y=False)
        r = R.fsync(fd)
        fs.note_fsync(fd)
        fs.post("fsync", rel, fd)
        return r
    return R.fsync(fd)


def w_fdatasync(fd):
    return w_fsync(fd)


def w_ftruncate(fd, length):
    fs = STATE
    if fs is not None and fd in fs.fds:
        rel = fs.fds[fd][0]
        fs.pre("ftruncate", rel, mut=True)
        r = R.ftruncate(fd, length)
        fs.touch_fd(fd)
        return r
    return R.ftruncate(fd, length)


def w_fstat(fd):
    fs = STATE
    st = R.fstat(fd)
    if fs is not None and fd in fs.fds:
        return fs.vstat(st)
    return st


def w_stat(path, *, dir_fd=None, follow_symlinks=True):
    if dir_fd is not None:
        return R.stat(path, dir_fd=dir_fd, follow_symlinks=follow_symlinks)
    if isinstance(path, int):
        return w_fstat(path)
    fs, rel = _fs_for(path)
    if fs is None:
        return R.stat(path, follow_symlinks=follow_symlinks)
    fs.pre("stat" if follow_symlinks else "lstat", rel)
    st = R.stat(path, follow_symlinks=follow_symlinks)
    return fs.vstat(st)


def w_lstat(path, *, dir_fd=None):
    if dir_fd is not None:
        return R.lstat(path, dir_fd=dir_fd)
    fs, rel = _fs_for(path)
    if fs is None:
        return R.lstat(path)
    fs.pre("lstat", rel)
    return fs.vstat(R.lstat(path))


def w_access(path, mode, **kw):
    fs, rel = _fs_for(path)
    if fs is not None and not kw:
        fs.pre("access", rel)
    return R.access(path, mode, **kw)


def w_listdir(path="."):
    fs, rel = _fs_for(path)
    if fs is None:
        return R.listdir(path)
    fs.pre("listdir", rel)
    return _ordered(fs, R.listdir(path))


def w_scandir(path="."):
    fs, rel = _fs_for(path)
    if fs is None:
        return R.scandir(path)
    fs.pre("scandir", rel)
    with R.scandir(path) as it:
        ents = [VDirEntry(fs, e) for e in it]
    ents = _ordered(fs, ents, key=lambda e: e.name)
    return VScandir(ents)


def w_mkdir(path, mode=0o777, *, dir_fd=None):
    if dir_fd is not None:
        return R.mkdir(path, mode, dir_fd=dir_fd)
    fs, rel = _fs_for(path, "mkdir")
    if fs is None:
        return R.mkdir(path, mode)
    fs.pre("mkdir", rel, mut=True)
    R.mkdir(path, mode)
    fs.touch_path(path)
    fs.touch_parent(path)
    fs.post("mkdir", rel)


def w_rmdir(path, *, dir_fd=None):
    if dir_fd is not None:
        return R.rmdir(path, dir_fd=dir_fd)
    fs, rel = _fs_for(path, "rmdir")
    if fs is None:
        return R.rmdir(path)
    fs.pre("rmdir", rel, mut=True)
    st = None
    try:
        st = R.lstat(path)
    except OSError:
        pass
    R.rmdir(path)
    if st is not None:
        fs.meta.pop((st.st_dev, st.st_ino), None)
    fs.touch_parent(path)
    fs.post("rmdir", rel)


def w_unlink(path, *, dir_fd=None):
    if dir_fd is not None:
        return R.unlink(path, dir_fd=dir_fd)
    fs, rel = _fs_for(path, "unlink")
    if fs is None:
        return R.unlink(path)
    fs.pre("unlink", rel, mut=True)
    st = None
    try:
        st = R.lstat(path)
    except OSError:
        pass
    R.unlink(path)
    if st is not None:
        fs.forget_if_gone(st)
    fs.touch_parent(path)
    fs.post("unlink", rel, (st.st_dev, st.st_ino) if st is not None else None)


def _rename_common(call, realfn, src, dst, kw):
    if kw:
        return realfn(src, dst, **kw)
    fs, rel = _fs_for(src, call)
    fs2, rel2 = _fs_for(dst, call)
    if fs is None and fs2 is None:
        return realfn(src, dst)
    fs = fs or fs2
    fs.pre(call, rel if rel is not None else rel2, mut=True)
    if rel is not None and rel2 is not None:
        fs.jail_check(call, rel2)
    sst = dstst = None
    try:
        sst = R.lstat(src)
    except OSError:
        pass
    try:
        dstst = R.lstat(dst)
    except OSError:
        pass
    realfn(src, dst)
    if dstst is not None and sst is not None and \
            (dstst.st_dev, dstst.st_ino) != (sst.st_dev, sst.st_ino):
        fs.forget_if_gone(dstst)
    if sst is not None:
        m = fs.meta_for(sst)
        m[3] = fs.now()
    fs.touch_parent(src)
    fs.touch_parent(dst)
    fs.post(call, rel, (rel2, (sst.st_dev, sst.st_ino) if sst else None,
                        (dstst.st_dev, dstst.st_ino) if dstst else None))


def w_rename(src, dst, **kw):
    return _rename_common("rename", R.rename, src, dst, kw)


def w_replace(src, dst, **kw):
    return _rename_common("replace", R.replace, src, dst, kw)


def w_link(src, dst, **kw):
    fs, rel = _fs_for(dst, None if kw else "link")
    if fs is None or kw:
        return R.link(src, dst, **kw)
    fs.pre("link", rel, mut=True)
    R.link(src, dst)
    fs.touch_path(dst, mtime=False)
    fs.touch_parent(dst)
    fs.post("link", rel)


def w_symlink(src, dst, target_is_directory=False, *, dir_fd=None):
    if dir_fd is not None:
        return R.symlink(src, dst, target_is_directory, dir_fd=dir_fd)
    fs, rel = _fs_for(dst, "symlink")
    if fs is None:
        return R.symlink(src, dst, target_is_directory)
    fs.pre("symlink", rel, mut=True)
    R.symlink(src, dst, target_is_directory)
    fs.touch_path(dst)
    fs.touch_parent(dst)
    fs.post("symlink", rel, os.fspath(src))


def w_readlink(path, *, dir_fd=None):
    if dir_fd is not None:
        return R.readlink(path, dir_fd=dir_fd)
    fs, rel = _fs_for(path)
    if fs is not None:
        fs.pre("readlink", rel)
    return R.readlink(path)


def w_chmod(path, mode, *, dir_fd=None, follow_symlinks=True):
    if dir_fd is not None or not follow_symlinks:
        return R.chmod(path, mode, dir_fd=dir_fd,
                       follow_symlinks=follow_symlinks)
    fs, rel = _fs_for(path, "chmod")
    if fs is None:
        return R.chmod(path, mode)
    fs.pre("chmod", rel, mut=True)
    R.chmod(path, mode)
    if isinstance(path, int):
        pass
    else:
        fs.touch_path(path, mtime=False, follow=True)
    fs.post("chmod", rel, mode)


def w_utime(path, times=None, *, ns=None, dir_fd=None, follow_symlinks=True):
    if dir_fd is not None:
        return R.utime(path, times, ns=ns, dir_fd=dir_fd,
                       follow_symlinks=follow_symlinks) if ns is not None \
            else R.utime(path, times, dir_fd=dir_fd,
                         follow_symlinks=follow_symlinks)
    fs, rel = _fs_for(path, "utime")
    if fs is None:
        if ns is not None:
            return R.utime(path, ns=ns, follow_symlinks=follow_symlinks)
        return R.utime(path, times, follow_symlinks=follow_symlinks)
    fs.pre("utime", rel, mut=True)
    st = R.stat(path, follow_symlinks=follow_symlinks)
    m = fs.meta_for(st)
    if ns is not None:
        a, mt = ns
    elif times is not None:
        a, mt = int(times[0] * 10**9), int(times[1] * 10**9)
    else:
        a = mt = fs.now()
    m[1], m[2], m[3] = a, mt, fs.now()
    fs.post("utime", rel)


def w_truncate(path, length):
    if isinstance(path, int):
        return w_ftruncate(path, length)
    fs, rel = _fs_for(path, "truncate")
    if fs is None:
        return R.truncate(path, length)
    fs.pre("truncate", rel, mut=True)
    R.truncate(path, length)
    fs.touch_path(path, follow=True)


def w_builtin_open(file, mode="r", buffering=-1, encoding=None, errors=None,
                   newline=None, closefd=True, opener=None):
    fs = STATE
    if fs is None or opener is not None:
        return R.open(file, mode, buffering, encoding, errors, newline,
                      closefd, opener)
    isfd = isinstance(file, int)
    rel = fs.rel(file)
    if rel is None:
        if not isfd and any(c in mode for c in "wax+"):
            _fs_for(file, "open_w")
        return R.open(file, mode, buffering, encoding, errors, newline,
                      closefd, opener)
    writable = any(c in mode for c in "wax+")
    binary = "b" in mode
    wonly = writable and binary and "+" not in mode
    if isfd:
        fd = file
        if wonly and closefd:
            bs = _bufsize(fs, buffering)
            return WProxy(fs, fd, rel, mode, bs, fd)
        f = R.open(fd, mode, buffering, encoding, errors, newline, closefd)
        return FProxy(fs, f, rel, writable)
    # path open
    if wonly:
        flags = os.O_WRONLY | os.O_CLOEXEC
        if "w" in mode:
            flags |= os.O_CREAT | os.O_TRUNC
        elif "x" in mode:
            flags |= os.O_CREAT | os.O_EXCL
        elif "a" in mode:
            flags |= os.O_CREAT | os.O_APPEND
        fd = w_open(file, flags, 0o666)
        return WProxy(fs, fd, rel, mode, _bufsize(fs, buffering),
                      os.fspath(file))
    if writable:
        existed = R.lexists(file)
        fs.pre("open_w", rel, mut=True)
        f = R.open(file, mode, buffering, encoding, errors, newline)
        st = R.fstat(f.fileno())
        fs.meta_for(st)
        fs.fds[f.fileno()] = (rel, (st.st_dev, st.st_ino))
        if not existed:
            fs.touch_parent(file)
        elif "w" in mode:
            fs.touch_fd(f.fileno())
        fs.post("open_w", rel, (f.fileno(), (st.st_dev, st.st_ino),
                                not existed))
        return FProxy(fs, f, rel, True)
    fs.pre("open_r", rel)
    f = R.open(file, mode, buffering, encoding, errors, newline)
    try:
        st = R.fstat(f.fileno())
        fs.meta_for(st)
        fs.fds[f.fileno()] = (rel, (st.st_dev, st.st_ino))
    except OSError:
        pass
    return FProxy(fs, f, rel, False)


def _bufsize(fs, buffering):
    if buffering == 0:
        return 0
    kb = fs.write_buffering
    if kb is not None and kb >= 0:
        return kb
    if buffering is None or buffering < 0:
        return 8192
    return buffering


def w_rmtree(path, ignore_errors=False, onerror=None, *, onexc=None,
             dir_fd=None):
    fs, rel = _fs_for(path, "unlink" if dir_fd is None else None)
    if fs is None or dir_fd is not None:
        return R.rmtree(path, ignore_errors, onerror, onexc=onexc,
                        dir_fd=dir_fd)

    def rm(p):
        try:
            st = R.lstat(p)
        except OSError:
            if ignore_errors:
                return
            raise
        if _stat.S_ISDIR(st.st_mode):
            for n in w_listdir(p):
                rm(os.path.join(os.fspath(p), n))
            try:
                w_rmdir(p)
            except OSError:
                if not ignore_errors:
                    raise
        else:
            try:
                w_unlink(p)
            except OSError:
                if not ignore_errors:
                    raise
    if R.islink(path):
        raise OSError("Cannot call rmtree on a symbolic link")
    rm(path)


class _Names:
    """Seeded replacement for tempfile._RandomNameSequence."""

    chars = "abcdefghijklmnopqrstuvwxyz0123456789_"

    def __init__(self):
        self._fallback = _random.Random()

    def __iter__(self):
        return self

    def __next__(self):
        fs = STATE
        rng = fs.tmp_rng if fs is not None else self._fallback
        return "".join(rng.choice(self.chars) for _ in range(8))


# -------------------------------------------------------------- time / pid
def w_time():
    fs = STATE
    if fs is not None and fs.sim is not None:
        return fs.sim.clock.now_ns / 1e9
    return R.time()


def w_time_ns():
    fs = STATE
    if fs is not None and fs.sim is not None:
        return fs.sim.clock.now_ns
    return R.time_ns()


def w_monotonic():
    fs = STATE
    if fs is not None and fs.sim is not None:
        return (fs.sim.clock.now_ns - fs.sim.clock.EPOCH) / 1e9 + 1000.0
    return R.monotonic()


def w_sleep(secs):
    fs = STATE
    if fs is not None and fs.sim is not None:
        fs.sim.clock.advance(int(secs * 1e9))
        fs.sim.yield_point("sleep")
        return None
    return R.sleep(secs)


def w_getpid():
    fs = STATE
    if fs is not None and fs.sim is not None and fs.sim.current is not None:
        return fs.sim.current.pid
    return R.getpid()


def install():
    """Patch the seams.  Must run before dulwich is imported."""
    global _INSTALLED
    if _INSTALLED:
        return
    _INSTALLED = True
    R.os_open = os.open
    R.close = os.close
    R.read = os.read
    R.write = os.write
    R.lseek = os.lseek
    R.fsync = os.fsync
    R.ftruncate = os.ftruncate
    R.fstat = os.fstat
    R.stat = os.stat
    R.lstat = os.lstat
    R.access = os.access
    R.listdir = os.listdir
    R.scandir = os.scandir
    R.mkdir = os.mkdir
    R.rmdir = os.rmdir
    R.unlink = os.unlink
    R.rename = os.rename
    R.replace = os.replace
    R.link = os.link
    R.symlink = os.symlink
    R.readlink = os.readlink
    R.chmod = os.chmod
    R.utime = os.utime
    R.truncate = os.truncate
    R.open = builtins.open
    R.rmtree = shutil.rmtree
    R.time = _time.time
    R.time_ns = _time.time_ns
    R.monotonic = _time.monotonic
    R.sleep = _time.sleep
    R.getpid = os.getpid
    R.makedirs = os.makedirs
    R.copytree = shutil.copytree

    def _realpath(p):
        return os.path.realpath(p)
    R.realpath = _realpath

    def _lexists(p):
        try:
            R.lstat(p)
            return True
        except (OSError, ValueError):
            return False
    R.lexists = _lexists

    def _islink(p):
        try:
            return _stat.S_ISLNK(R.lstat(p).st_mode)
        except (OSError, ValueError):
            return False
    R.islink = _islink

    os.open = w_open
    os.close = w_close
    os.read = w_read
    os.write = w_write
    os.fsync = w_fsync
    os.fdatasync = w_fdatasync
    os.ftruncate = w_ftruncate
    os.fstat = w_fstat
    os.stat = w_stat
    os.lstat = w_lstat
    os.access = w_access
    os.listdir = w_listdir
    os.scandir = w_scandir
    os.mkdir = w_mkdir
    os.rmdir = w_rmdir
    os.unlink = w_unlink
    os.remove = w_unlink
    os.rename = w_rename
    os.replace = w_replace
    os.link = w_link
    os.symlink = w_symlink
    os.readlink = w_readlink
    os.chmod = w_chmod
    os.utime = w_utime
    os.truncate = w_truncate
    os.getpid = w_getpid
    builtins.open = w_builtin_open
    io.open = w_builtin_open
    shutil.rmtree = w_rmtree
    _names = _Names()
    tempfile._name_sequence = _names
    tempfile._get_candidate_names = lambda: _names
    _time.time = w_time
    _time.time_ns = w_time_ns
    _time.monotonic = w_monotonic
    _time.sleep = w_sleep


def real_walk(top):
    """os.walk on real primitives (harness use)."""
    stack = [top]
    while stack:
        d = stack.pop()
        dirs, files = [], []
        with R.scandir(d) as it:
            for e in it:
                if e.is_dir(follow_symlinks=False):
                    dirs.append(e.name)
                else:
                    files.append(e.name)
        dirs.sort()
        files.sort()
        yield d, dirs, files
        for n in reversed(dirs):
            stack.append(os.path.join(d, n))


def activate(fs):
    global STATE
    STATE = fs


def deactivate():
    global STATE
    STATE = None
