"""Process bootstrap: seams first, then dulwich from the tree under test."""

from __future__ import annotations

import argparse
import gc
import importlib
import importlib.abc
import logging
import os
import sys
import warnings

VERIF = os.path.dirname(os.path.dirname(os.path.abspath(__file__)))
BLOCKED = {"dulwich._objects", "dulwich._pack", "dulwich._diff_tree"}


class _Block(importlib.abc.MetaPathFinder):
    def find_spec(self, name, path=None, target=None):
        if name in BLOCKED:
            raise ImportError(f"{name} blocked by the simulator (pure-Python "
                              f"working tree is what runs)")
        return None


def prepare():
    """Install seams and import dulwich from $VERIF_REPO (default /repo)."""
    from . import simfs
    repo = os.path.realpath(os.environ.get("VERIF_REPO", "/repo"))
    sys.meta_path.insert(0, _Block())
    sys.path.insert(0, repo)
    simfs.install()
    warnings.simplefilter("ignore", ResourceWarning)
    warnings.simplefilter("ignore", DeprecationWarning)
    import dulwich
    got = os.path.realpath(os.path.dirname(dulwich.__file__))
    if got != os.path.join(repo, "dulwich"):
        print(f"HARNESS-ERROR dulwich imported from {got}, wanted {repo}")
        sys.exit(3)
    import dulwich.repo  # noqa: F401
    import dulwich.porcelain  # noqa: F401
    logging.disable(logging.CRITICAL)
    from . import util
    util.enter_private_scratch()
    gc.disable()
    gc.collect()
    gc.freeze()
    return repo


def main(argv):
    ap = argparse.ArgumentParser(prog="check")
    ap.add_argument("target")
    ap.add_argument("--tier", default=os.environ.get("VERIF_TIER") or "quick",
                    choices=["quick", "thorough"])
    ap.add_argument("--runs", type=int, default=None)
    ap.add_argument("--workers", type=int,
                    default=int(os.environ.get("VERIF_WORKERS", "0")) or
                    (os.cpu_count() or 4))
    ap.add_argument("--seed", type=int,
                    default=int(os.environ.get("VERIF_SEED", "0") or 0))
    ap.add_argument("--replay", default=None)
    ap.add_argument("--expect", default=None)
    ap.add_argument("--one", type=int, default=None,
                    help="run the single run index i of the batch verbosely")
    args = ap.parse_args(argv)
    prepare()
    from . import runner
    t = args.target
    if t.startswith("selftest"):
        from . import selftest
        return selftest.main(t, args)
    mod = importlib.import_module(f"sim.props.{t.lower()}")
    if args.replay:
        return runner.replay(mod, args.replay, args.expect)
    if args.one is not None:
        import json
        seed = runner.seed_for(args.seed, args.one)
        plan = mod.gen_plan(seed, args.tier)
        print(json.dumps(plan, indent=1, default=str)[:6000])
        res = mod.run_plan(plan)
        for e in res.get("events") or []:
            print("  ", e)
        print({k: v for k, v in res.items() if k != "events"})
        return 0
    return runner.check(mod, args.tier, args.seed, args.workers, args.runs)
