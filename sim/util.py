"""Shared helpers: sandboxes, repository recipes, hashing."""

from __future__ import annotations

import hashlib
import json
import os
import stat as _stat

from . import simfs
from .simfs import R

SHM = "/dev/shm" if os.path.isdir("/dev/shm") else None


FIXED_BASE = "/dev/shm/verifsim-fixed"
_PRIVATE = {"pid": None}


def enter_private_scratch():
    """Give this process a private tmpfs at a fixed absolute path (mount
    namespace), so that sandbox paths -- which leak into symlink targets,
    wire messages and hash orders -- are identical in every process.  Falls
    back to a per-pid directory when that is not permitted."""
    pid = os.getpid() if not hasattr(R, "getpid") else R.getpid()
    if _PRIVATE["pid"] == pid:
        return True
    if os.environ.get("VERIF_NO_UNSHARE") == "1" or SHM is None:
        return False
    try:
        import ctypes
        os.unshare(os.CLONE_NEWNS)
        libc = ctypes.CDLL("libc.so.6", use_errno=True)
        if libc.mount(b"none", b"/", None, 0x4000 | 0x40000, None) != 0:
            return False
        if not os.path.isdir(FIXED_BASE):
            os.makedirs(FIXED_BASE, exist_ok=True)
        if libc.mount(b"tmpfs", FIXED_BASE.encode(), b"tmpfs", 0,
                      b"size=4g") != 0:
            return False
        _PRIVATE["pid"] = pid
        return True
    except (OSError, AttributeError):
        return False


def scratch_base():
    pid = R.getpid() if hasattr(R, "getpid") else os.getpid()
    if _PRIVATE["pid"] == pid:
        return FIXED_BASE
    base = SHM
    if base is None:
        import tempfile
        base = tempfile.gettempdir()
    return os.path.join(base, "verifsim-%07d" % pid)


class Sandbox:
    """A fresh real directory for one run; removed on exit."""

    _n = 0

    def __init__(self, name="run"):
        self.base = scratch_base()
        self.path = os.path.join(self.base, name)

    def __enter__(self):
        real_rmtree(self.path)
        R.makedirs(self.path, exist_ok=True)
        return self.path

    def __exit__(self, *a):
        simfs.deactivate()
        real_rmtree(self.path)


def real_rmtree(path):
    try:
        st = R.lstat(path)
    except OSError:
        return
    if _stat.S_ISDIR(st.st_mode):
        try:
            R.chmod(path, 0o700)
        except OSError:
            pass
        for n in R.listdir(path):
            real_rmtree(os.path.join(path, n))
        R.rmdir(path)
    else:
        R.unlink(path)


def real_copytree(src, dst):
    """Copy a directory tree with real primitives (symlinks preserved)."""
    R.mkdir(dst)
    for n in sorted(R.listdir(src)):
        s = os.path.join(src, n)
        d = os.path.join(dst, n)
        st = R.lstat(s)
        if _stat.S_ISDIR(st.st_mode):
            real_copytree(s, d)
        elif _stat.S_ISLNK(st.st_mode):
            R.symlink(R.readlink(s), d)
        else:
            with R.open(s, "rb") as f:
                data = f.read()
            fd = R.os_open(d, os.O_WRONLY | os.O_CREAT | os.O_EXCL,
                           _stat.S_IMODE(st.st_mode))
            try:
                R.write(fd, data)
            finally:
                R.close(fd)
    R.chmod(dst, _stat.S_IMODE(R.lstat(src).st_mode))


def snapshot(root, skip=None):
    """{relpath: bytes | ('link', target) | ('dir',)} using real primitives."""
    out = {}
    for dp, dns, fns in simfs.real_walk(root):
        rel = os.path.relpath(dp, root)
        if rel == ".":
            rel = ""
        for n in fns:
            p = os.path.join(dp, n)
            r = os.path.join(rel, n) if rel else n
            if skip and skip(r):
                continue
            st = R.lstat(p)
            if _stat.S_ISLNK(st.st_mode):
                out[r] = ("link", R.readlink(p))
            elif _stat.S_ISREG(st.st_mode):
                with R.open(p, "rb") as f:
                    out[r] = f.read()
        for n in dns:
            r = os.path.join(rel, n) if rel else n
            out.setdefault(r + "/", ("dir",))
    return out


def read_real(path):
    try:
        with R.open(path, "rb") as f:
            return f.read()
    except FileNotFoundError:
        return None


def h8(obj):
    if not isinstance(obj, (bytes, bytearray)):
        obj = json.dumps(obj, sort_keys=True, default=repr).encode()
    return hashlib.blake2b(obj, digest_size=8).hexdigest()


def compress_trace(trace):
    return [list(x) for x in trace]


# ------------------------------------------------------- repository recipes
IDENT = b"Sim User <sim@example.com>"


def mk_blob(data):
    from dulwich.objects import Blob
    return Blob.from_string(data)


def mk_tree(entries):
    """entries: list of (name, mode, sha)."""
    from dulwich.objects import Tree
    t = Tree()
    for name, mode, sha in entries:
        t.add(name, mode, sha)
    return t


def mk_commit(tree_id, parents, msg, t, author=IDENT):
    from dulwich.objects import Commit
    c = Commit()
    c.tree = tree_id
    c.parents = list(parents)
    c.author = c.committer = author
    c.author_time = c.commit_time = int(t)
    c.author_timezone = c.commit_timezone = 0
    c.encoding = None
    c.message = msg
    return c


def mk_tag(name, obj, t, msg=b"tag\n"):
    from dulwich.objects import Tag
    tg = Tag()
    tg.name = name
    tg.object = (type(obj), obj.id)
    tg.tagger = IDENT
    tg.tag_time = int(t)
    tg.tag_timezone = 0
    tg.message = msg
    return tg


def init_repo(path, bare=False, config=None):
    """Repo.init with a pinned configuration (no auto-gc unless asked)."""
    from dulwich.repo import Repo
    if not R.lexists(path):
        R.makedirs(path)
    r = Repo.init_bare(path) if bare else Repo.init(path)
    c = r.get_config()
    c.set((b"gc",), b"auto", b"0")
    c.set((b"user",), b"name", b"Sim User")
    c.set((b"user",), b"email", b"sim@example.com")
    for (sec, key), val in (config or {}).items():
        c.set(sec, key, val)
    c.write_to_path()
    # no hook scripts: executing one is a real subprocess outside the simulator
    hooks = os.path.join(r.controldir(), "hooks")
    if R.lexists(hooks):
        for n in R.listdir(hooks):
            R.unlink(os.path.join(hooks, n))
    return r


def simple_history(repo, n=3, t0=1700000000, branch=b"refs/heads/master",
                   tag=True, salt=b""):
    """n linear commits with one file each; returns list of commit ids."""
    ids = []
    parent = []
    entries = []
    for i in range(n):
        b = mk_blob(b"content %d %s\n" % (i, salt))
        repo.object_store.add_object(b)
        entries.append((b"f%d.txt" % i, 0o100644, b.id))
        t = mk_tree(entries)
        repo.object_store.add_object(t)
        c = mk_commit(t.id, parent, b"commit %d\n" % i, t0 + i * 100)
        repo.object_store.add_object(c)
        parent = [c.id]
        ids.append(c.id)
    repo.refs[branch] = ids[-1]
    if tag:
        tg = mk_tag(b"v1", repo[ids[0]], t0 + 5)
        repo.object_store.add_object(tg)
        repo.refs[b"refs/tags/v1"] = tg.id
        repo.refs[b"refs/tags/light"] = ids[0]
    return ids
