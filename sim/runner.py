"""Batch runner: seeds -> plans -> executions; minimisation, replay files,
known findings, evidence.  Property modules plug in through a small interface:

    PROP_ID, LEVEL, RULE, ASSUMPTIONS, COMPONENTS
    budget(tier) -> int                       number of seeds for the tier
    gen_plan(seed, tier) -> dict              pure function, JSON-able
    run_plan(plan) -> dict                    {"violations": [{"sig","detail"}],
                                               "digest", "ihash", "nontrivial",
                                               "trace", "stats": {...}}
    shrink(plan) -> iterable of smaller plans (optional)
"""

from __future__ import annotations

import faulthandler
import gc
import hashlib
import json
import os
import re
import select
import signal
import subprocess
import sys
import time as _time
import traceback

VERIF = os.path.dirname(os.path.dirname(os.path.abspath(__file__)))
REAL_TIME = _time.time  # captured before simfs.install() replaces it? (see main)


def _now():
    from . import simfs
    return simfs.R.time() if hasattr(simfs.R, "time") else _time.time()


def load_known():
    p = os.path.join(VERIF, "known_findings.json")
    try:
        with open(p) as f:
            return json.load(f)
    except FileNotFoundError:
        return {"findings": [], "fixed": []}


def match_known(known, prop, sig):
    for k in known.get("findings", []):
        if k.get("property") != prop:
            continue
        if re.fullmatch(k["signature_re"], sig):
            return k
    return None


def seed_for(base, i):
    return (int(base) * 1_000_003 + i) & 0x7FFFFFFFFFFF


class Agg:
    """Statistics aggregated over runs (mergeable across workers)."""

    def __init__(self):
        self.runs = 0
        self.evals = 0
        self.nontrivial = 0
        self.ihashes = set()
        self.nt_ihashes = set()
        self.stats = {}
        self.samples = []
        self.viol = {}  # sig -> [count, first_seed, first_index, detail]
        self.harness_errors = []

    def add(self, i, seed, plan, res):
        self.runs += 1
        ih = res.get("ihash")
        cases = res.get("cases")
        if cases is not None:
            # a run that evaluates many cases (crash images, mutations)
            self.evals += len(cases)
            for h, nt in cases:
                self.ihashes.add(h)
                if nt:
                    self.nt_ihashes.add(h)
        else:
            self.evals += 1
            if ih is not None:
                self.ihashes.add(ih)
                if res.get("nontrivial"):
                    self.nt_ihashes.add(ih)
        if res.get("nontrivial"):
            self.nontrivial += 1
        for k, v in (res.get("stats") or {}).items():
            self.stats[k] = self.stats.get(k, 0) + v
        if len(self.samples) < 2 and res.get("sample") is not None:
            self.samples.append(res["sample"])
        for v in res.get("violations") or []:
            e = self.viol.get(v["sig"])
            if e is None:
                self.viol[v["sig"]] = [1, seed, i, v.get("detail")]
            else:
                e[0] += 1
                if i < e[2]:
                    e[1], e[2], e[3] = seed, i, v.get("detail")

    def dump(self):
        return {"runs": self.runs, "evals": self.evals,
                "nontrivial": self.nontrivial,
                "ihashes": sorted(self.ihashes),
                "nt_ihashes": sorted(self.nt_ihashes), "stats": self.stats,
                "samples": self.samples, "viol": self.viol,
                "harness_errors": self.harness_errors}

    def merge(self, d):
        self.runs += d["runs"]
        self.evals += d.get("evals", d["runs"])
        self.nontrivial += d["nontrivial"]
        self.ihashes.update(d["ihashes"])
        self.nt_ihashes.update(d["nt_ihashes"])
        for k, v in d["stats"].items():
            self.stats[k] = self.stats.get(k, 0) + v
        for s in d["samples"]:
            if len(self.samples) < 4:
                self.samples.append(s)
        for sig, e in d["viol"].items():
            m = self.viol.get(sig)
            if m is None:
                self.viol[sig] = list(e)
            else:
                m[0] += e[0]
                if e[2] < m[2]:
                    m[1], m[2], m[3] = e[1], e[2], e[3]
        self.harness_errors.extend(d["harness_errors"])


CHUNK = 4
POISON = 0xFFFFFFFF


def _worker(mod, tier, base, w, nw, n, wfd, per_run_timeout, tok_r):
    import struct
    agg = Agg()
    out = os.fdopen(wfd, "w")
    try:
        stop = False
        while not stop:
            b = os.read(tok_r, 4)
            if len(b) < 4:
                break
            (c,) = struct.unpack("<I", b)
            if c == POISON:
                break
            for i in range(c * CHUNK, min(n, (c + 1) * CHUNK)):
                seed = seed_for(base, i)
                faulthandler.dump_traceback_later(per_run_timeout, exit=True)
                try:
                    plan = mod.gen_plan(seed, tier)
                    res = mod.run_plan(plan)
                except BaseException as e:  # noqa: BLE001
                    agg.harness_errors.append(
                        {"seed": seed, "error": repr(e),
                         "tb": traceback.format_exc()[-2000:]})
                    if len(agg.harness_errors) > 5:
                        stop = True
                        break
                    continue
                finally:
                    faulthandler.cancel_dump_traceback_later()
                agg.add(i, seed, plan, res)
                del res, plan
            # the collector is off while plans run (bootstrap): drop the
            # cyclic garbage (exceptions with tracebacks, mostly) between
            # chunks, or a long batch grows without bound
            gc.collect()
        out.write(json.dumps({"done": True, "agg": agg.dump()}) + "\n")
        out.flush()
    finally:
        try:
            out.close()
        except Exception:  # noqa: BLE001
            pass


def run_batch(mod, tier, base, n, nworkers, per_run_timeout=900,
              batch_timeout=3600):
    """Fork workers over the seed range, merge their aggregates."""
    agg = Agg()
    if n <= 0:
        return agg, []
    nworkers = max(1, min(nworkers, n))
    if nworkers == 1 and os.environ.get("VERIF_INPROC"):
        for i in range(n):
            seed = seed_for(base, i)
            plan = mod.gen_plan(seed, tier)
            agg.add(i, seed, plan, mod.run_plan(plan))
        return agg, []
    kids = {}
    sys.stdout.flush()
    sys.stderr.flush()
    import struct
    tok_r, tok_w = os.pipe()
    os.set_blocking(tok_w, False)
    nchunks = (n + CHUNK - 1) // CHUNK
    tokens = list(range(nchunks)) + [POISON] * nworkers
    tpos = 0
    for w in range(nworkers):
        r, wr = os.pipe()
        pid = os.fork()
        if pid == 0:
            code = 0
            try:
                os.close(r)
                os.close(tok_w)
                for fd in [k[0] for k in kids.values()]:
                    os.close(fd)
                signal.signal(signal.SIGINT, signal.SIG_DFL)
                from . import util as _util
                _util.enter_private_scratch()
                if os.environ.get("VERIF_PIN", "1") == "1":
                    try:
                        cpus = sorted(os.sched_getaffinity(0))
                        os.sched_setaffinity(0, {cpus[w % len(cpus)]})
                    except (AttributeError, OSError):
                        pass
                _worker(mod, tier, base, w, nworkers, n, wr, per_run_timeout,
                        tok_r)
            except BaseException:  # noqa: BLE001
                traceback.print_exc()
                code = 3
            finally:
                sys.stdout.flush()
                sys.stderr.flush()
                os._exit(code)
        os.close(wr)
        kids[pid] = (r, w, bytearray())
    problems = []
    deadline = _now() + batch_timeout
    fdmap = {v[0]: pid for pid, v in kids.items()}
    open_fds = set(fdmap)
    done = set()
    os.close(tok_r)
    while open_fds:
        left = deadline - _now()
        if left <= 0:
            break
        wl = [tok_w] if tpos < len(tokens) else []
        rl, wl, _ = select.select(list(open_fds), wl, [], min(left, 5.0))
        if wl:
            # feed work tokens (dynamic load balancing); 4-byte atomic units
            try:
                while tpos < len(tokens):
                    batch = tokens[tpos:tpos + 256]
                    os.write(tok_w, b"".join(struct.pack("<I", t)
                                             for t in batch))
                    tpos += len(batch)
            except BlockingIOError:
                pass
            except BrokenPipeError:
                tpos = len(tokens)
        for fd in rl:
            b = os.read(fd, 1 << 20)
            pid = fdmap[fd]
            if b:
                kids[pid][2].extend(b)
            else:
                open_fds.discard(fd)
                os.close(fd)
    try:
        os.close(tok_w)
    except OSError:
        pass
    for pid, (fd, w, buf) in kids.items():
        if fd in open_fds:
            try:
                os.kill(pid, signal.SIGKILL)
            except OSError:
                pass
            os.close(fd)
            problems.append(f"worker {w} timed out")
        try:
            _, status = os.waitpid(pid, 0)
        except ChildProcessError:
            status = 0
        ok = False
        for line in bytes(buf).decode().splitlines():
            try:
                msg = json.loads(line)
            except ValueError:
                continue
            if msg.get("done"):
                agg.merge(msg["agg"])
                ok = True
        if not ok:
            problems.append(f"worker {w} died (status {status})")
    for he in agg.harness_errors:
        problems.append(f"harness exception seed={he['seed']} {he['error']}\n"
                        f"{he['tb']}")
    return agg, problems


# ------------------------------------------------------------- minimisation
def sigs_of(res):
    return [v["sig"] for v in res.get("violations") or []]


def _trace_candidates(plan):
    """Fewer context switches: drop one schedule segment at a time."""
    tr = (plan.get("sched") or {}).get("trace")
    if not tr:
        return
    n = len(tr)
    # drop big chunks first
    size = n // 2
    while size >= 1:
        for s in range(0, n, size):
            new = tr[:s] + tr[s + size:]
            if len(new) < n:
                p = json.loads(json.dumps(plan))
                p["sched"]["trace"] = new
                yield p
        size //= 2


def minimise(mod, plan, sig, budget=300):
    """Greedy delta debugging while the same signature persists."""
    runs = 0
    best = plan

    def still(p):
        nonlocal runs
        runs += 1
        try:
            res = mod.run_plan(p)
        except BaseException:  # noqa: BLE001
            return None
        if sig in sigs_of(res):
            return res
        return None

    improved = True
    while improved and runs < budget:
        improved = False
        gens = []
        if hasattr(mod, "shrink"):
            gens.append(mod.shrink(best))
        gens.append(_trace_candidates(best))
        for g in gens:
            for cand in g:
                if runs >= budget:
                    break
                res = still(cand)
                if res is not None:
                    best = cand
                    # normalise to the schedule actually taken
                    if res.get("trace") is not None and "sched" in best and \
                            "trace" in best["sched"]:
                        best = json.loads(json.dumps(best))
                        best["sched"]["trace"] = res["trace"]
                    improved = True
                    break
            if improved:
                break
    return best, runs


def pin_trace(mod, plan, sig):
    """Re-run a seeded plan and freeze the schedule it took into the plan."""
    res = mod.run_plan(plan)
    if sig not in sigs_of(res):
        return None
    if res.get("trace") is None:
        return plan
    p = json.loads(json.dumps(plan))
    p.setdefault("sched", {})
    p["sched"] = {"trace": res["trace"]}
    res2 = mod.run_plan(p)
    if sig not in sigs_of(res2):
        return None
    return p


# ------------------------------------------------------------------ evidence
def _faults_fired(mod, stats):
    """Faults that actually fired: the shim's own fault table (fault:*) plus
    what a module injects by other means (crash images, corrupted bytes,
    clock behaviour, stale derived files) and counts under FAULT_COUNTERS =
    {statistic: fault kind}."""
    out = {k[6:]: v for k, v in stats.items() if k.startswith("fault:")}
    for key, kind in getattr(mod, "FAULT_COUNTERS", {}).items():
        if key.endswith("*"):
            for k, v in stats.items():
                if k.startswith(key[:-1]) and v:
                    kk = kind + k[len(key) - 1:]
                    out[kk] = out.get(kk, 0) + v
        elif stats.get(key):
            out[kind] = out.get(kind, 0) + stats[key]
    return out


def write_evidence(mod, tier, base, agg, wall, nviol, extra=None):
    if os.environ.get("VERIF_NO_EVIDENCE") or os.path.realpath(
            os.environ.get("VERIF_REPO", "/repo")) != "/repo":
        # evidence describes /repo itself, never a scratch tree
        return
    os.makedirs(os.path.join(VERIF, "evidence"), exist_ok=True)
    rph = int(agg.runs / wall * 3600) if wall > 0 else 0
    stats = dict(sorted(agg.stats.items()))
    cov = {
        "evaluations": agg.evals,
        "plans_run": agg.runs,
        "distinct_nontrivial": len(agg.nt_ihashes),
        "rule": mod.RULE,
        "samples": agg.samples[:3] or ["(no sample recorded)"],
        "distinct_cases_total": len(agg.ihashes),
        "nontrivial_runs": agg.nontrivial,
        "runs_per_hour": rph,
        "seeds_per_hour": rph,
        "simulated_seconds": round(stats.pop("sim_ns", 0) / 1e9, 3),
        "faults_fired": _faults_fired(mod, stats),
        "probes": {k[6:]: v for k, v in stats.items()
                   if k.startswith("probe:")},
        "policies": {k[7:]: v for k, v in stats.items()
                     if k.startswith("policy:")},
        "counters": {k: v for k, v in stats.items()
                     if not k.startswith(("fault:", "probe:", "policy:"))},
        "components": mod.COMPONENTS,
        "exhaustive": False,
    }
    if extra:
        cov.update(extra)
    ev = {
        "property_id": mod.PROP_ID,
        "tier": tier,
        "seed": int(base),
        "level": mod.LEVEL,
        "coverage": cov,
        "assumptions": mod.ASSUMPTIONS,
        "wall_s": round(wall, 2),
        "violations": nviol,
    }
    path = os.path.join(VERIF, "evidence", f"{mod.PROP_ID}.json")
    tmp = path + ".tmp"
    with open(tmp, "w") as f:
        json.dump(ev, f, indent=1, sort_keys=True, default=str)
        f.write("\n")
    os.replace(tmp, path)
    return path


# ---------------------------------------------------------------- top level
def fresh_replay(prop, path, sig, timeout=600):
    """Re-execute a replay file in a fresh interpreter; True if it reproduces."""
    cmd = [sys.executable, "-B", os.path.join(VERIF, "bin", "check"), prop,
           "--replay", path, "--expect", sig]
    try:
        p = subprocess.run(cmd, capture_output=True, text=True,
                           timeout=timeout, errors="backslashreplace")
    except subprocess.TimeoutExpired:
        return False, "timeout"
    return p.returncode == 1 and "REPRODUCED" in p.stdout, p.stdout[-2000:] + \
        p.stderr[-2000:]


def check(mod, tier, base, nworkers, n_override=None):
    t0 = _now()
    n = n_override if n_override is not None else mod.budget(tier)
    known = load_known()
    agg, problems = run_batch(mod, tier, base, n, nworkers,
                              batch_timeout=getattr(mod, "BATCH_TIMEOUT", {})
                              .get(tier, 3600 if tier == "quick"
                                   else 6 * 3600))
    extra = None
    if hasattr(mod, "extra_phase"):
        # deterministic, non-seeded sweeps (exhaustive enumerations)
        extra = mod.extra_phase(tier, base, agg, nworkers)
    exit_code = 0
    nviol = 0
    printed_known = set()
    os.makedirs(os.path.join(VERIF, "replays"), exist_ok=True)
    handled = 0
    for sig, (count, seed, idx, detail) in sorted(
            agg.viol.items(), key=lambda kv: kv[1][2]):
        k = match_known(known, mod.PROP_ID, sig)
        if k is not None:
            if k["signature_re"] not in printed_known:
                printed_known.add(k["signature_re"])
                print(f"KNOWN-FINDING: property={mod.PROP_ID} {k['what']} "
                      f"[{sig}; {count} runs, first seed {seed}]")
                kp = os.path.join(VERIF, k.get("replay") or "")
                if os.environ.get("VERIF_KEEP_KNOWN") and k.get("replay") \
                        and not os.path.exists(kp):
                    # (maintenance, never part of a registered command: write
                    # the replay file a recorded finding refers to)
                    pinned = pin_trace(mod, mod.gen_plan(seed, tier), sig)
                    if pinned is not None:
                        small, nruns = minimise(
                            mod, pinned, sig,
                            budget=getattr(mod, "MIN_BUDGET", 300))
                        with open(kp, "w") as f:
                            json.dump({"property": mod.PROP_ID,
                                       "signature": sig, "seed": seed,
                                       "tier": tier, "detail": detail,
                                       "pythonhashseed": os.environ.get(
                                           "PYTHONHASHSEED"),
                                       "minimise_runs": nruns,
                                       "occurrences": count, "plan": small},
                                      f, indent=1, sort_keys=True,
                                      default=str)
                            f.write("\n")
                        print(f"  (kept replay {kp})")
            continue
        nviol += 1
        handled += 1
        if handled > int(os.environ.get("VERIF_MAX_REPORTS", "6")):
            print(f"(further signature not minimised: {sig} x{count} "
                  f"seed={seed})")
            exit_code = max(exit_code, 1)
            continue
        plan = mod.gen_plan(seed, tier)
        pinned = pin_trace(mod, plan, sig)
        if pinned is None:
            problems.append(f"nondeterministic-replay sig={sig} seed={seed}")
            continue
        small, nruns = minimise(mod, pinned, sig,
                                budget=getattr(mod, "MIN_BUDGET", 300))
        rp = os.path.join(VERIF, "replays",
                          f"{mod.PROP_ID}-{seed}-{hashlib.sha1(sig.encode()).hexdigest()[:8]}.json")
        with open(rp, "w") as f:
            json.dump({"property": mod.PROP_ID, "signature": sig,
                       "seed": seed, "tier": tier, "detail": detail,
                       "pythonhashseed": os.environ.get("PYTHONHASHSEED"),
                       "minimise_runs": nruns, "occurrences": count,
                       "plan": small}, f, indent=1, sort_keys=True,
                      default=str)
            f.write("\n")
        ok, outp = fresh_replay(mod.PROP_ID, rp, sig)
        if not ok:
            problems.append(f"replay did not reproduce in a fresh process: "
                            f"{rp} sig={sig}\n{outp}")
            continue
        print(f"VIOLATION property={mod.PROP_ID} replay={rp}")
        print(f"  signature: {sig}  ({count} of {agg.runs} runs; "
              f"minimised in {nruns} re-executions)")
        if detail:
            print(f"  detail: {str(detail)[:600]}")
        exit_code = 1
    # a recorded finding that this batch did not happen to sample is shown
    # from its committed replay file (fresh process); if that no longer
    # reproduces, nothing is printed for it
    for k in known.get("findings", []):
        if k.get("property") != mod.PROP_ID or \
                k["signature_re"] in printed_known or not k.get("replay"):
            continue
        kp = os.path.join(VERIF, k["replay"])
        try:
            with open(kp) as f:
                ksig = json.load(f).get("signature")
        except (OSError, ValueError):
            continue
        if not ksig or match_known({"findings": [k]}, mod.PROP_ID,
                                   ksig) is None:
            continue
        ok, _ = fresh_replay(mod.PROP_ID, kp, ksig, timeout=120)
        if ok:
            printed_known.add(k["signature_re"])
            print(f"KNOWN-FINDING: property={mod.PROP_ID} {k['what']} "
                  f"[{ksig}; replayed from {k['replay']}]")
    wall = _now() - t0
    write_evidence(mod, tier, base, agg, wall, nviol, extra)
    zero = [k for k, v in (getattr(mod, "PROBES", None) or {}).items()
            if agg.stats.get("probe:" + k, 0) == 0]
    if zero:
        print(f"note: probes never hit in this run: {', '.join(zero)}")
    print(f"{mod.PROP_ID} tier={tier} seed={base} runs={agg.runs} "
          f"distinct={len(agg.ihashes)} nontrivial-distinct={len(agg.nt_ihashes)} "
          f"violations={nviol} wall={wall:.1f}s")
    if problems:
        for p in problems:
            print(f"HARNESS-ERROR {p}")
        return 3
    return exit_code


def replay(mod, path, expect=None):
    with open(path) as f:
        rec = json.load(f)
    plan = rec["plan"]
    res = mod.run_plan(plan)
    sigs = sigs_of(res)
    want = expect or rec.get("signature")
    for v in res.get("violations") or []:
        print(f"violation: {v['sig']}\n  {str(v.get('detail'))[:1500]}")
    if want in sigs:
        print(f"REPRODUCED property={mod.PROP_ID} signature={want} "
              f"digest={res.get('digest')}")
        if res.get("events"):
            for e in res["events"][-int(os.environ.get("VERIF_SHOW_EVENTS",
                                                       "60")):]:
                print("   ", e)
        return 1
    print(f"NOT-REPRODUCED property={mod.PROP_ID} wanted={want} got={sigs}")
    return 0
