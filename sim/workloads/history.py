"""Object universe model and random history generator.

The generator builds every object itself and keeps id -> (type, raw bytes,
edges) so that oracles never ask dulwich what a repository should contain.
dulwich object classes are used only to serialise (C01's subject).
"""

from __future__ import annotations

import hashlib

BLOB, TREE, COMMIT, TAG = 3, 2, 1, 4
TYPE_NAMES = {1: b"commit", 2: b"tree", 3: b"blob", 4: b"tag"}
IDENT = b"Sim User <sim@example.com>"


class Universe:
    def __init__(self):
        self.objs = {}  # hex id (bytes) -> (type_num, raw bytes)
        self.edges = {}  # hex id -> list of hex ids
        self.shaobjs = {}  # hex id -> dulwich ShaFile (for adding to stores)

    # -- construction -----------------------------------------------------
    def _add(self, obj, edges):
        raw = obj.as_raw_string()
        oid = obj.id
        tn = obj.type_num
        chk = hashlib.sha1(TYPE_NAMES[tn] + b" %d\0" % len(raw) + raw)
        assert chk.hexdigest().encode() == oid
        self.objs[oid] = (tn, raw)
        self.edges[oid] = list(edges)
        self.shaobjs[oid] = obj
        return oid

    def blob(self, data):
        from dulwich.objects import Blob
        return self._add(Blob.from_string(data), [])

    def tree(self, entries):
        """entries: list of (name, mode, id); gitlinks (0o160000) have no edge."""
        from dulwich.objects import Tree
        t = Tree()
        edges = []
        for name, mode, oid in entries:
            t.add(name, mode, oid)
            if mode != 0o160000:
                edges.append(oid)
        return self._add(t, edges)

    def commit(self, tree, parents, t, msg=b"msg\n"):
        from dulwich.objects import Commit
        c = Commit()
        c.tree = tree
        c.parents = list(parents)
        c.author = c.committer = IDENT
        c.author_time = c.commit_time = int(t)
        c.author_timezone = c.commit_timezone = 0
        c.message = msg
        return self._add(c, [tree, *parents])

    def tag(self, name, target, t, msg=b"tag\n"):
        from dulwich.objects import Tag
        tg = Tag()
        tg.name = name
        tg.object = (type(self.shaobjs[target]), target)
        tg.tagger = IDENT
        tg.tag_time = int(t)
        tg.tag_timezone = 0
        tg.message = msg
        return self._add(tg, [target])

    # -- queries ----------------------------------------------------------
    def closure(self, ids, stop=()):
        seen = set()
        todo = [i for i in ids if i is not None]
        stop = set(stop)
        while todo:
            i = todo.pop()
            if i in seen or i in stop:
                continue
            if i not in self.objs:
                continue
            seen.add(i)
            todo.extend(self.edges[i])
        return seen

    def type_of(self, oid):
        return self.objs[oid][0]

    def parents(self, oid):
        tn, raw = self.objs[oid]
        assert tn == COMMIT
        return self.edges[oid][1:]

    def add_to_store(self, store, ids):
        for i in ids:
            store.add_object(self.shaobjs[i])

    def intact_in(self, store, oid):
        """None if the store returns exactly (type, bytes) for oid, else a
        short description of what is wrong."""
        tn, raw = self.objs[oid]
        try:
            t2, r2 = store.get_raw(oid)
        except KeyError:
            return "missing"
        except Exception as e:  # noqa: BLE001
            return f"error:{type(e).__name__}"
        if t2 != tn or r2 != raw:
            return "content-differs"
        return None


def gen_history(u, rng, n_commits=6, t0=1700000000, salt=b"", paths=None,
                merges=True, tags=True, gitlinks=False, big=False,
                octopus=0.0):
    """Grow a random commit DAG in universe ``u``.

    Returns dict(commits=[ids in creation order], heads=[...], tags={name:id},
    blobs=[...]).
    """
    paths = paths or [b"a.txt", b"b.txt", b"dir/c.txt", b"dir/sub/d.txt",
                      b"e.bin"]
    state = {}  # path -> blob id, per head
    commits = []
    heads = []
    blobs = []
    trees_of = {}
    files_of = {}

    def mk_tree(files):
        # files: {path: (mode, blob id)}
        top = {}
        for p, v in sorted(files.items()):
            parts = p.split(b"/")
            d = top
            for part in parts[:-1]:
                d = d.setdefault(part, {})
            d[parts[-1]] = v

        def build(d):
            ents = []
            for name, v in sorted(d.items()):
                if isinstance(v, dict):
                    ents.append((name, 0o040000, build(v)))
                else:
                    ents.append((name, v[0], v[1]))
            return u.tree(ents)
        return build(top)

    nblob = [0]

    def new_blob():
        nblob[0] += 1
        if big and rng.random() < 0.2:
            data = (b"%d-%s-" % (nblob[0], salt)) * rng.randint(200, 3000)
        else:
            base = b"line %d %s\n" % (nblob[0] % 3, salt)
            data = base * rng.randint(0, 12) + b"uniq %d %s\n" % (nblob[0], salt)
        b = u.blob(data)
        blobs.append(b)
        return b

    for i in range(n_commits):
        if octopus and len(commits) >= 3 and rng.random() < octopus:
            # a merge of three or more arbitrary earlier commits
            ps = rng.sample(commits, rng.randint(3, min(5, len(commits))))
            files = dict(files_of[ps[0]])
            for p in ps[1:]:
                for path, v in files_of[p].items():
                    if rng.random() < 0.3:
                        files[path] = v
        elif commits and merges and len(heads) >= 2 and rng.random() < 0.25:
            k = 2 if rng.random() < 0.8 else min(3, len(heads))
            ps = rng.sample(heads, k)
            files = dict(files_of[ps[0]])
            for p in ps[1:]:
                for path, v in files_of[p].items():
                    if rng.random() < 0.5:
                        files[path] = v
        elif commits and rng.random() < 0.75:
            ps = [rng.choice(heads)] if rng.random() < 0.7 else \
                [rng.choice(commits)]
            files = dict(files_of[ps[0]])
        elif commits and rng.random() < 0.5:
            ps = [rng.choice(commits)]
            files = dict(files_of[ps[0]])
        else:
            ps = []  # new root
            files = {}
        for _ in range(rng.randint(1, 2)):
            p = rng.choice(paths)
            r = rng.random()
            if r < 0.15 and p in files:
                del files[p]
            elif r < 0.3 and blobs:
                files[p] = (0o100644, rng.choice(blobs))  # shared blob
            else:
                mode = 0o100755 if rng.random() < 0.1 else 0o100644
                files[p] = (mode, new_blob())
        if gitlinks and rng.random() < 0.1:
            files[b"sub"] = (0o160000, hashlib.sha1(b"sub%d" % i).hexdigest()
                             .encode())
        elif gitlinks and commits and rng.random() < 0.15:
            # a submodule entry that pins a commit which also exists in this
            # very repository (another branch, a disjoint root): it is not
            # part of this tree's closure, but it is a real object someone
            # may want
            files[b"sub-own"] = (0o160000, rng.choice(commits))
        if not files:
            files[paths[0]] = (0o100644, new_blob())
        tid = mk_tree(files)
        # non-monotone commit times on purpose
        t = t0 + i * 60 + rng.choice([0, 0, 0, -500, 700])
        cid = u.commit(tid, ps, t, b"commit %d %s\n" % (i, salt))
        commits.append(cid)
        files_of[cid] = files
        trees_of[cid] = tid
        heads = [h for h in heads if h not in ps] + [cid]
    tagmap = {}
    if tags and commits:
        for j in range(rng.randint(0, 2)):
            tgt = rng.choice(commits)
            r = rng.random()
            if r < 0.15:
                tgt = trees_of[tgt]
            elif r < 0.25 and blobs:
                tgt = rng.choice(blobs)
            tg = u.tag(b"v%d%s" % (j, salt), tgt, t0 + 5 + j)
            if rng.random() < 0.2:
                tg = u.tag(b"vv%d%s" % (j, salt), tg, t0 + 6 + j)  # tag of tag
            tagmap[b"refs/tags/v%d%s" % (j, salt)] = tg
        if rng.random() < 0.4:
            tagmap[b"refs/tags/light%s" % salt] = rng.choice(commits)
    return {"commits": commits, "heads": heads, "tags": tagmap,
            "blobs": blobs, "trees_of": trees_of, "files_of": files_of}
