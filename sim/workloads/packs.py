"""Hand-written pack writer (independent of dulwich.pack's writer) that keeps
the layout of what it wrote, so that structural attacks can be generated from
the pack's own grammar."""

from __future__ import annotations

import hashlib
import struct
import zlib

OFS_DELTA = 6
REF_DELTA = 7


def varint_size(type_num, size):
    c = (type_num << 4) | (size & 0x0F)
    size >>= 4
    out = bytearray()
    while size:
        out.append(c | 0x80)
        c = size & 0x7F
        size >>= 7
    out.append(c)
    return bytes(out)


def ofs_varint(delta):
    out = [delta & 0x7F]
    delta >>= 7
    while delta:
        delta -= 1
        out.insert(0, 0x80 | (delta & 0x7F))
        delta >>= 7
    return bytes(out)


def delta_header_size(n):
    out = bytearray()
    while True:
        b = n & 0x7F
        n >>= 7
        if n:
            out.append(b | 0x80)
        else:
            out.append(b)
            return bytes(out)


def simple_delta(base, target):
    """A valid delta: copy a common prefix from base, insert the rest."""
    k = 0
    m = min(len(base), len(target))
    while k < m and base[k] == target[k]:
        k += 1
    out = bytearray(delta_header_size(len(base)) +
                    delta_header_size(len(target)))
    if k:
        # copy instruction: offset 0, size k (k < 0x10000 here)
        k = min(k, 0xFFFF)
        op = 0x80
        args = bytearray()
        if k & 0xFF:
            op |= 0x10
            args.append(k & 0xFF)
        if k & 0xFF00:
            op |= 0x20
            args.append((k >> 8) & 0xFF)
        if not args:
            k = 0
        else:
            out.append(op)
            out += args
    rest = target[k:]
    while rest:
        chunk = rest[:127]
        out.append(len(chunk))
        out += chunk
        rest = rest[127:]
    return bytes(out)


class Entry:
    def __init__(self, kind, type_num=None, data=b"", base=None,
                 declared_size=None, ofs=None, comp=None, tail=b""):
        self.kind = kind  # full | ofs | ref
        self.type_num = type_num
        self.data = data  # full: raw object bytes; delta: delta bytes
        self.base = base  # ofs: index of base entry; ref: 20-byte sha
        self.declared_size = declared_size
        self.ofs = ofs  # explicit (possibly invalid) ofs distance
        self.comp = comp  # explicit compressed payload
        self.tail = tail  # bytes after the zlib stream (garbage)


def build(entries, count=None, version=2, trailer=None):
    """-> (pack bytes, layout) ; layout[i] = dict(off, hdr_len, data_off,
    data_len)."""
    out = bytearray(b"PACK" + struct.pack(">LL", version,
                                          len(entries) if count is None
                                          else count))
    layout = []
    for e in entries:
        off = len(out)
        size = len(e.data) if e.declared_size is None else e.declared_size
        if e.kind == "full":
            hdr = varint_size(e.type_num, size)
        elif e.kind == "ofs":
            dist = e.ofs if e.ofs is not None else off - layout[e.base]["off"]
            hdr = varint_size(OFS_DELTA, size) + ofs_varint(dist)
        else:
            hdr = varint_size(REF_DELTA, size) + e.base
        comp = e.comp if e.comp is not None else zlib.compress(e.data)
        out += hdr + comp + e.tail
        layout.append({"off": off, "hdr_len": len(hdr),
                       "data_off": off + len(hdr), "data_len": len(comp)})
    tr = hashlib.sha1(bytes(out)).digest() if trailer is None else trailer
    out += tr
    return bytes(out), layout


def retrail(pack):
    """Recompute the trailer of a (mutated) pack body."""
    body = pack[:-20]
    return body + hashlib.sha1(body).digest()


def obj_id(type_name, raw):
    return hashlib.sha1(type_name + b" %d\0" % len(raw) + raw).hexdigest() \
        .encode()
